//# target: src/blockchain/parser/reader.rs
//# needs: reader_c01.rs
// C12: the AuxPoW section is consumed exactly iff the coin has a threshold and version >= threshold;
// header, block hash pre-image and transactions come from behind the section.
use super::vk_reader_c01 as rx;
use crate::verif_models::ghost;
use std::io::Cursor;

fn coin(aux: Option<u32>) -> CoinType {
    CoinType { name: String::new(), magic: 0, version_id: 0x34, genesis_hash: bitcoin::hashes::sha256d::Hash::from_byte_array([0; 32]), aux_pow_activation_version: aux, default_folder: std::path::PathBuf::new() }
}

/// version: concrete block version; thr: coin threshold. A well-formed block carries a section
/// exactly when thr is Some(t) and version >= t.
macro_rules! auxpow {
    ($name:ident, $unw:expr, $version:expr, $thr:expr, $segwit_cb:expr, $b1:expr, $b2:expr) => {
        auxpow!($name, $unw, $version, $thr, $segwit_cb, $b1, $b2, false);
    };
    // $zero_tail: the last hash of the coinbase branch and everything up to the end of the parent header are concrete
    // zeros (their content is irrelevant). With long branches this keeps a *mis-aligned* parse (a change that consumes
    // the wrong number of hashes) on concrete counts, so that it ends in a failed assertion instead of a symbolic
    // transaction count that CBMC cannot unwind.
    ($name:ident, $unw:expr, $version:expr, $thr:expr, $segwit_cb:expr, $b1:expr, $b2:expr, $zero_tail:expr) => {
        #[kani::proof]
        #[kani::unwind($unw)]
        #[kani::stub(crate::blockchain::proto::script::eval_from_bytes, rx::stub_eval)]
        #[kani::stub(<bitcoin::hashes::sha256::HashEngine as bitcoin::hashes::HashEngine>::input, ghost::stub_engine_input)]
        #[kani::stub(<bitcoin::hashes::sha256d::Hash as bitcoin::hashes::Hash>::from_engine, ghost::stub_sha256d_fin)]
        fn $name() {
            const VERSION: u32 = $version;
            const THR: Option<u32> = $thr;
            const SECTION: bool = match THR { Some(t) => VERSION >= t, None => false };
            // parent coinbase (1 in, 1 out) and the block's single transaction
            const CB: rx::Lay = rx::layout($segwit_cb, 1, &[(2, 1)], &[(1, 1)], &[&[1]]);
            const TX: rx::Lay = rx::layout(false, 1, &[(1, 1)], &[(2, 1)], &[]);
            const B1_AT: usize = 80 + CB.n + 32;
            const B2_AT: usize = B1_AT + 1 + 32 * $b1 + 4;
            const SEC_LEN: usize = if SECTION { CB.n + 32 + (1 + 32 * $b1 + 4) + (1 + 32 * $b2 + 4) + 80 } else { 0 };
            const CNT_AT: usize = 80 + SEC_LEN;
            const TX_AT: usize = CNT_AT + 1;
            const N: usize = TX_AT + TX.n;
            ghost::init(kani::any());
            let mut buf: [u8; N] = kani::any();
            let vb = VERSION.to_le_bytes();
            buf[0] = vb[0]; buf[1] = vb[1]; buf[2] = vb[2]; buf[3] = vb[3];
            if SECTION {
                rx::apply(&mut buf, 80, &CB);
                buf[B1_AT] = $b1;
                buf[B2_AT] = $b2;
            }
            if SECTION && $zero_tail && $b1 > 0 {
                let mut z = B1_AT + 1 + 32 * ($b1 - 1);
                while z < CNT_AT { buf[z] = 0; z += 1; }
                buf[B2_AT] = $b2;
            }
            buf[CNT_AT] = 1;
            rx::apply(&mut buf, TX_AT, &TX);
            let c = coin(THR);
            let mut cur = Cursor::new(&buf[..]);
            let b = match cur.read_block(N as u32, &c) {
                Ok(b) => b,
                Err(er) => { core::mem::forget(er); assert!(false, "C12:block_parses"); return; }
            };
            assert!(cur.position() as usize == N, "C12:section_consumed_exactly");
            assert!(b.aux_pow_extension.is_some() == SECTION, "C12:section_iff_threshold_reached");
            assert!(b.header.value.version == VERSION, "C12:header_version");
            assert!(b.header.value.nonce == rx::le32(&buf, 76) && b.header.value.timestamp == rx::le32(&buf, 68), "C12:header_fields_from_the_first_80_bytes");
            assert!(b.tx_count.value == 1 && b.txs.len() == 1, "C12:transaction_list_behind_the_section");
            let tx = &b.txs[0].value;
            assert!(tx.version == rx::le32(&buf, TX_AT), "C12:tx_version_behind_the_section");
            assert!(tx.locktime == rx::le32(&buf, TX_AT + TX.lock_at), "C12:tx_locktime_behind_the_section");
            assert!(tx.outputs[0].out.value == rx::le64(&buf, TX_AT + TX.out_at[0]), "C12:tx_output_value_behind_the_section");
            assert!(tx.inputs[0].seq_no == rx::le32(&buf, TX_AT + TX.in_seq_at[0]), "C12:tx_input_behind_the_section");
            // hash pre-images: tx first (call 0), then the 80 header bytes (call 1)
            let hd = ghost::sha256d_call(1, &buf[..80]);
            assert!(hd.is_some(), "C12:block_hash_preimage_is_the_80_header_bytes");
            let td = ghost::sha256d_call(0, &buf[TX_AT..TX_AT + TX.n]);
            assert!(td.is_some(), "C12:txid_preimage_is_the_transaction_behind_the_section");
            kani::cover!(true, "block parsed and compared");
            core::mem::forget(b);
        }
    };
}
// namecoin threshold 0x10101, dogecoin 0x620102
//@ id=C12 tier=quick name=c12_nmc_at timeout=2400 role=auxpow_skip bound=version==threshold(0x10101),legacy-parent-coinbase,branches-1/0 mem=20 fn=read_block,read_aux_pow_extension,read_merkle_branch,read_tx,Block::new
auxpow!(c12_nmc_at, 130, 0x10101, Some(0x10101), false, 1, 0);
//@ id=C12 tier=quick name=c12_nmc_below timeout=1800 role=auxpow_skip bound=version==threshold-1,no-section mem=20
auxpow!(c12_nmc_below, 130, 0x10100, Some(0x10101), false, 0, 0);
//@ id=C12 tier=quick name=c12_doge_above_segwit timeout=2400 role=auxpow_skip bound=version==threshold+1(0x620103),segwit-parent-coinbase,branches-0/2 mem=20
auxpow!(c12_doge_above_segwit, 130, 0x620103, Some(0x620102), true, 0, 2);
//@ id=C12 tier=quick name=c12_none_high timeout=1800 role=auxpow_skip bound=coin-without-AuxPoW,version-0xffffffff,no-section mem=20
auxpow!(c12_none_high, 130, 0xffffffff, None, false, 0, 0);
//@ id=C12 tier=thorough name=c12_doge_at timeout=3000 role=auxpow_skip bound=version==0x620102,branches-2/1 mem=20
auxpow!(c12_doge_at, 130, 0x620102, Some(0x620102), false, 2, 1);
//@ id=C12 tier=thorough name=c12_doge_below timeout=1800 role=auxpow_skip bound=version==0x620101,no-section mem=20
auxpow!(c12_doge_below, 130, 0x620101, Some(0x620102), false, 0, 0);
//@ id=C12 tier=thorough name=c12_nmc_max timeout=3000 role=auxpow_skip bound=version==0xffffffff,threshold-0x10101,branches-1/1 mem=24
auxpow!(c12_nmc_max, 130, 0xffffffff, Some(0x10101), false, 1, 1);
//@ id=C12 tier=extra name=c12_nmc_max_b3 timeout=7200 role=auxpow_skip bound=version==0xffffffff,threshold-0x10101,branches-3/3 mem=24
auxpow!(c12_nmc_max_b3, 130, 0xffffffff, Some(0x10101), false, 3, 3);
//@ id=C12 tier=thorough name=c12_none_nmcver timeout=1800 role=auxpow_skip bound=coin-without-AuxPoW,version-0x10101,no-section mem=20
auxpow!(c12_none_nmcver, 130, 0x10101, None, false, 0, 0);
//@ id=C12 tier=quick name=c12_nmc_b33 timeout=1500 role=auxpow_skip bound=version==0x10101,coinbase-branch-of-33-hashes(beyond-32-tree-levels),blockchain-branch-0 mem=24 fsarr=2048
auxpow!(c12_nmc_b33, 1400, 0x10101, Some(0x10101), false, 33, 0, true);
//@ id=C12 tier=thorough name=c12_doge_b0_b40 timeout=3600 role=auxpow_skip bound=version==0x620102,branches-0/40 mem=24 fsarr=2048
auxpow!(c12_doge_b0_b40, 1650, 0x620102, Some(0x620102), false, 0, 40);
