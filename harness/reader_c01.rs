//# target: src/blockchain/parser/reader.rs
//# models: hashmap
// C01 (fields = on-disk bytes, witness-stripped re-serialization, hash pre-images),
// C14 (scriptSig / witness bytes are opaque), C12 (AuxPoW section skipped exactly).
// Shapes (counts, lengths, CompactSize widths) are concrete per instance; all content bytes symbolic.

use crate::blockchain::proto::script;
use crate::blockchain::proto::tx::EvaluatedTx;
use crate::blockchain::proto::{Hashed, ToRaw};
use crate::verif_models::ghost;
use std::io::Cursor;

pub fn stub_eval(_b: &[u8], _v: u8) -> script::EvaluatedScript {
    script::EvaluatedScript::new(None, script::ScriptPattern::NotRecognised)
}

pub fn le32(b: &[u8], at: usize) -> u32 {
    u32::from_le_bytes([b[at], b[at + 1], b[at + 2], b[at + 3]])
}
pub fn le64(b: &[u8], at: usize) -> u64 {
    u64::from_le_bytes([b[at], b[at + 1], b[at + 2], b[at + 3], b[at + 4], b[at + 5], b[at + 6], b[at + 7]])
}

//@ id=C01 tier=quick name=c01_header80 timeout=900 role=header80 bound=any-80-bytes fn=read_block_header,BlockHeader::to_bytes,Hashed::double_sha256
#[kani::proof]
#[kani::unwind(84)]
#[kani::stub(<bitcoin::hashes::sha256::HashEngine as bitcoin::hashes::HashEngine>::input, ghost::stub_engine_input)]
#[kani::stub(<bitcoin::hashes::sha256d::Hash as bitcoin::hashes::Hash>::from_engine, ghost::stub_sha256d_fin)]
fn c01_header80() {
    ghost::init(kani::any());
    let buf: [u8; 80] = kani::any();
    let mut c = Cursor::new(&buf[..]);
    let h = match c.read_block_header() {
        Ok(h) => h,
        Err(e) => { core::mem::forget(e); assert!(false, "C01:header_parses"); return; }
    };
    assert!(c.position() == 80, "C01:header_consumes_80_bytes");
    assert!(h.version == le32(&buf, 0), "C01:header_version");
    let ph = h.prev_hash.to_byte_array();
    let mr = h.merkle_root.to_byte_array();
    let mut i = 0;
    while i < 32 {
        assert!(ph[i] == buf[4 + i], "C01:header_prev_hash");
        assert!(mr[i] == buf[36 + i], "C01:header_merkle_root");
        i += 1;
    }
    assert!(h.timestamp == le32(&buf, 68), "C01:header_time");
    assert!(h.bits == le32(&buf, 72), "C01:header_bits");
    assert!(h.nonce == le32(&buf, 76), "C01:header_nonce");
    let raw = h.to_bytes();
    assert!(raw.len() == 80, "C01:header_reserializes_to_80_bytes");
    let mut i = 0;
    while i < 80 { assert!(raw[i] == buf[i], "C01:header_reserialization_is_identity"); i += 1; }
    let hashed = Hashed::double_sha256(h);
    let d = ghost::sha256d_call(0, &buf);
    assert!(d.is_some(), "C01:block_hash_preimage_is_the_80_header_bytes");
    let d = d.unwrap_or([0; 32]);
    let hh = hashed.hash.to_byte_array();
    let mut i = 0;
    while i < 32 { assert!(hh[i] == d[i], "C01:block_hash_is_double_sha256_of_header"); i += 1; }
    kani::cover!(buf[0] == 0xff && buf[79] == 0x01, "arbitrary header bytes");
    core::mem::forget(raw);
    core::mem::forget(hashed);
}

// ------------------------------------------------------------------------------------------
// Transaction shapes. The layout (all offsets, the concrete structural bytes, the ranges that make
// up the witness-stripped serialization) is computed by a const fn, so that every index CBMC sees
// is a compile-time constant; the buffer itself is fully symbolic except the structural bytes.
// ------------------------------------------------------------------------------------------
pub const MAXIO: usize = 4;
pub const MAXW: usize = 64;
#[derive(Clone, Copy)]
pub struct Lay {
    pub n: usize,                 // length of the full serialization
    pub en: usize,                // length of the witness-stripped serialization
    pub in_at: [usize; MAXIO],    // offset of each input (outpoint start)
    pub in_script_at: [usize; MAXIO],
    pub in_seq_at: [usize; MAXIO],
    pub out_at: [usize; MAXIO],
    pub out_script_at: [usize; MAXIO],
    pub lock_at: usize,
    pub wit_at: usize,            // start of the witness section (== lock_at when legacy)
    pub body_at: usize,           // first byte after version (+ marker/flag)
    pub nw: usize,
    pub w_at: [usize; MAXW],      // structural bytes: offset
    pub w_val: [u8; MAXW],        // structural bytes: value
}

const fn w(mut l: Lay, b: u8) -> Lay {
    l.w_at[l.nw] = l.n;
    l.w_val[l.nw] = b;
    l.nw += 1;
    l.n += 1;
    l
}
/// CompactSize of `val` in the given width (1, 3, 5 or 9 bytes; wider than necessary = non-canonical)
const fn w_cs(mut l: Lay, val: usize, width: usize) -> Lay {
    if width == 1 {
        l = w(l, val as u8);
    } else {
        let tag = if width == 3 { 0xfd } else if width == 5 { 0xfe } else { 0xff };
        l = w(l, tag);
        let mut j = 0;
        while j < width - 1 {
            l = w(l, ((val >> (8 * j)) & 0xff) as u8);
            j += 1;
        }
    }
    l
}

/// ins/outs: (script length, CompactSize width); wit: per input a list of item lengths
pub const fn layout(segwit: bool, cnt_w: usize, ins: &[(usize, usize)], outs: &[(usize, usize)], wit: &[&[usize]]) -> Lay {
    let mut l = Lay { n: 0, en: 0, in_at: [0; MAXIO], in_script_at: [0; MAXIO], in_seq_at: [0; MAXIO], out_at: [0; MAXIO], out_script_at: [0; MAXIO],
                      lock_at: 0, wit_at: 0, body_at: 0, nw: 0, w_at: [0; MAXW], w_val: [0; MAXW] };
    l.n = 4;
    if segwit {
        l = w(l, 0x00);
        l = w(l, 0x01);
    }
    l.body_at = l.n;
    l = w_cs(l, ins.len(), cnt_w);
    let mut i = 0;
    while i < ins.len() {
        l.in_at[i] = l.n;
        l.n += 36;
        l = w_cs(l, ins[i].0, ins[i].1);
        l.in_script_at[i] = l.n;
        l.n += ins[i].0;
        l.in_seq_at[i] = l.n;
        l.n += 4;
        i += 1;
    }
    l = w_cs(l, outs.len(), cnt_w);
    let mut i = 0;
    while i < outs.len() {
        l.out_at[i] = l.n;
        l.n += 8;
        l = w_cs(l, outs[i].0, outs[i].1);
        l.out_script_at[i] = l.n;
        l.n += outs[i].0;
        i += 1;
    }
    l.wit_at = l.n;
    if segwit {
        let mut i = 0;
        while i < ins.len() {
            l = w_cs(l, wit[i].len(), 1);
            let mut k = 0;
            while k < wit[i].len() {
                l = w_cs(l, wit[i][k], if wit[i][k] < 0xfd { 1 } else { 3 });
                l.n += wit[i][k];
                k += 1;
            }
            i += 1;
        }
    }
    l.lock_at = l.n;
    l.n += 4;
    l.en = 4 + (l.wit_at - l.body_at) + 4;
    l
}

/// Overwrites the structural bytes of a fully symbolic buffer.
pub fn apply(buf: &mut [u8], at: usize, l: &Lay) {
    let mut i = 0;
    while i < l.nw {
        buf[at + l.w_at[i]] = l.w_val[i];
        i += 1;
    }
}
/// i-th byte of the witness-stripped serialization of the transaction that starts at `at`
pub fn stripped(buf: &[u8], at: usize, l: &Lay, i: usize) -> u8 {
    let body = l.wit_at - l.body_at;
    if i < 4 { buf[at + i] } else if i < 4 + body { buf[at + l.body_at + (i - 4)] } else { buf[at + l.lock_at + (i - 4 - body)] }
}

fn check_tx(buf: &[u8], l: &Lay, ins: &[(usize, usize)], outs: &[(usize, usize)], hash_check: bool) {
    let mut c = Cursor::new(&buf[..l.n]);
    let tx = match c.read_tx(0x00) {
        Ok(t) => t,
        Err(e) => { core::mem::forget(e); assert!(false, "C01:tx_parses"); return; }
    };
    assert!(c.position() as usize == l.n, "C01:tx_consumes_exactly_its_bytes");
    assert!(tx.version == le32(buf, 0), "C01:tx_version");
    assert!(tx.in_count.value == ins.len() as u64 && tx.inputs.len() == ins.len(), "C01:tx_input_count");
    assert!(tx.out_count.value == outs.len() as u64 && tx.outputs.len() == outs.len(), "C01:tx_output_count");
    assert!(tx.locktime == le32(buf, l.lock_at), "C01:tx_locktime");
    let mut i = 0;
    while i < ins.len() {
        let inp = &tx.inputs[i];
        let id = inp.outpoint.txid.to_byte_array();
        let mut k = 0;
        while k < 32 { assert!(id[k] == buf[l.in_at[i] + k], "C01:input_prev_txid"); k += 1; }
        assert!(inp.outpoint.index == le32(buf, l.in_at[i] + 32), "C01:input_prev_index");
        assert!(inp.script_len.value == ins[i].0 as u64 && inp.script_sig.len() == ins[i].0, "C01:input_script_length");
        let mut k = 0;
        while k < ins[i].0 { assert!(inp.script_sig[k] == buf[l.in_script_at[i] + k], "C01:input_script_bytes"); k += 1; }
        assert!(inp.seq_no == le32(buf, l.in_seq_at[i]), "C01:input_sequence");
        i += 1;
    }
    let mut i = 0;
    while i < outs.len() {
        let o = &tx.outputs[i];
        assert!(o.value == le64(buf, l.out_at[i]), "C01:output_value");
        assert!(o.script_len.value == outs[i].0 as u64 && o.script_pubkey.len() == outs[i].0, "C01:output_script_length");
        let mut k = 0;
        while k < outs[i].0 { assert!(o.script_pubkey[k] == buf[l.out_script_at[i] + k], "C01:output_script_bytes"); k += 1; }
        i += 1;
    }
    // witness-stripped re-serialization == txid pre-image
    let etx = EvaluatedTx::from(tx);
    let raw = etx.to_bytes();
    assert!(raw.len() == l.en, "C01:stripped_serialization_length");
    let mut k = 0;
    while k < l.en { assert!(raw[k] == stripped(buf, 0, l, k), "C01:stripped_serialization_bytes"); k += 1; }
    if hash_check {
        let hashed = Hashed::double_sha256(etx);
        let d = ghost::sha256d_call(0, &raw);
        assert!(d.is_some(), "C01:txid_preimage_is_witness_stripped_tx");
        let d = d.unwrap_or([0; 32]);
        let hh = hashed.hash.to_byte_array();
        let mut k = 0;
        while k < 32 { assert!(hh[k] == d[k], "C01:txid_is_double_sha256_of_stripped_tx"); k += 1; }
        core::mem::forget(hashed);
    } else {
        core::mem::forget(etx);
    }
    kani::cover!(true, "transaction parsed and compared");
    core::mem::forget(raw);
}

macro_rules! txshape {
    ($name:ident, $cap:expr, $unw:expr, $segwit:expr, $cntw:expr, $ins:expr, $outs:expr, $wit:expr, $hash:expr) => {
        #[kani::proof]
        #[kani::unwind($unw)]
        #[kani::stub(crate::blockchain::proto::script::eval_from_bytes, stub_eval)]
        #[kani::stub(<bitcoin::hashes::sha256::HashEngine as bitcoin::hashes::HashEngine>::input, ghost::stub_engine_input)]
        #[kani::stub(<bitcoin::hashes::sha256d::Hash as bitcoin::hashes::Hash>::from_engine, ghost::stub_sha256d_fin)]
        fn $name() {
            const INS: &[(usize, usize)] = &$ins;
            const OUTS: &[(usize, usize)] = &$outs;
            const WIT: &[&[usize]] = &$wit;
            const L: Lay = layout($segwit, $cntw, INS, OUTS, WIT);
            ghost::init(kani::any());
            let mut buf: [u8; L.n] = kani::any();
            apply(&mut buf, 0, &L);
            check_tx(&buf, &L, INS, OUTS, $hash);
        }
    };
}

// quick: legacy / segwit x counts x small script lengths x witness stacks, and CompactSize width variants
//@ id=C01,C14 tier=quick name=c01_tx_l_1_1 timeout=900 role=tx_roundtrip bound=legacy,1-in(script-2),1-out(script-1)
txshape!(c01_tx_l_1_1, 96, 100, false, 1, [(2, 1)], [(1, 1)], [], true);
//@ id=C01,C14 tier=quick name=c01_tx_l_2_2 timeout=1200 role=tx_roundtrip bound=legacy,2-in(scripts-0,1),2-out(scripts-2,0)
txshape!(c01_tx_l_2_2, 160, 160, false, 1, [(0, 1), (1, 1)], [(2, 1), (0, 1)], [], true);
//@ id=C01,C14 tier=quick name=c01_tx_s_1_1 timeout=900 role=tx_roundtrip bound=segwit,1-in,1-out,witness-stack-[1,0]
txshape!(c01_tx_s_1_1, 96, 100, true, 1, [(1, 1)], [(2, 1)], [&[1, 0]], true);
//@ id=C01,C14 tier=quick name=c01_tx_s_2_1 timeout=1200 role=tx_roundtrip bound=segwit,2-in,1-out,witness-stacks-[],[2,1]
txshape!(c01_tx_s_2_1, 160, 160, true, 1, [(0, 1), (2, 1)], [(1, 1)], [&[], &[2, 1]], true);
//@ id=C01,C14 tier=quick name=c01_tx_noncanon3 timeout=900 role=tx_roundtrip bound=legacy,script-length-1-encoded-as-fd-01-00,counts-as-fd
txshape!(c01_tx_noncanon3, 96, 100, false, 3, [(1, 3)], [(1, 3)], [], true);
//@ id=C01,C14 tier=quick name=c01_tx_noncanon5 timeout=900 role=tx_roundtrip bound=legacy,script-lengths-encoded-as-fe-and-ff
txshape!(c01_tx_noncanon5, 112, 110, false, 1, [(1, 5)], [(2, 9)], [], true);

// thorough: lengths on either side of the one-byte / three-byte CompactSize boundary
//@ id=C01,C14 tier=thorough name=c01_tx_len_fc timeout=3000 role=tx_roundtrip bound=legacy,scriptSig-252-bytes(1-byte-prefix) mem=20
txshape!(c01_tx_len_fc, 352, 360, false, 1, [(0xfc, 1)], [(1, 1)], [], false);
//@ id=C01,C14 tier=thorough name=c01_tx_len_fd timeout=3000 role=tx_roundtrip bound=legacy,scriptPubKey-253-bytes(3-byte-prefix) mem=20
txshape!(c01_tx_len_fd, 352, 360, false, 1, [(1, 1)], [(0xfd, 3)], [], false);
//@ id=C01,C14 tier=thorough name=c01_tx_s_wit_fd timeout=3000 role=tx_roundtrip bound=segwit,witness-item-253-bytes mem=20
txshape!(c01_tx_s_wit_fd, 384, 390, true, 1, [(0, 1)], [(0, 1)], [&[0xfd]], false);
//@ id=C01,C14 tier=thorough name=c01_tx_l_3_3 timeout=3000 role=tx_roundtrip bound=legacy,3-in,3-out mem=20
txshape!(c01_tx_l_3_3, 256, 260, false, 1, [(1, 1), (0, 1), (2, 1)], [(0, 1), (3, 1), (1, 1)], [], true);

// ------------------------------------------------------------------------------------------
// C14 opaque fields: two runs that differ only in scriptSig and witness bytes agree on every
// other field and on the consumed length.
// ------------------------------------------------------------------------------------------
//@ id=C14 tier=quick name=c14_opaque_fields timeout=1200 role=opaque_fields bound=segwit,1-in(script-2),1-out(script-1),witness-[2,1] fn=read_tx,read_tx_inputs,read_tx_outputs
#[kani::proof]
#[kani::unwind(100)]
fn c14_opaque_fields() {
    const INS: &[(usize, usize)] = &[(2, 1)];
    const OUTS: &[(usize, usize)] = &[(1, 1)];
    const WIT: &[&[usize]] = &[&[2, 1]];
    const L: Lay = layout(true, 1, INS, OUTS, WIT);
    let mut a: [u8; L.n] = kani::any();
    apply(&mut a, 0, &L);
    // second buffer: same bytes except the scriptSig and witness payload bytes
    let mut b = a;
    let s0: u8 = kani::any();
    let s1: u8 = kani::any();
    b[L.in_script_at[0]] = s0;
    b[L.in_script_at[0] + 1] = s1;
    // witness section: [n_items=2][len=2][x][x][len=1][x]
    let w = L.wit_at;
    let w0: u8 = kani::any();
    let w1: u8 = kani::any();
    let w2: u8 = kani::any();
    b[w + 2] = w0;
    b[w + 3] = w1;
    b[w + 5] = w2;
    let mut ca = Cursor::new(&a[..]);
    let mut cb = Cursor::new(&b[..]);
    let (ta, tb) = match (ca.read_tx(0x00), cb.read_tx(0x00)) {
        (Ok(x), Ok(y)) => (x, y),
        _ => { assert!(false, "C14:both_parse"); return; }
    };
    assert!(ca.position() == cb.position(), "C14:consumed_length_independent_of_script_and_witness_bytes");
    assert!(ta.version == tb.version && ta.locktime == tb.locktime, "C14:version_locktime_independent");
    assert!(ta.inputs[0].outpoint == tb.inputs[0].outpoint && ta.inputs[0].seq_no == tb.inputs[0].seq_no, "C14:input_fields_independent");
    assert!(ta.outputs[0].value == tb.outputs[0].value, "C14:output_value_independent");
    assert!(ta.outputs[0].script_pubkey[0] == tb.outputs[0].script_pubkey[0], "C14:output_script_independent");
    kani::cover!(s0 != a[L.in_script_at[0]] && w2 != a[w + 5], "scriptSig and witness really differ");
    core::mem::forget(ta);
    core::mem::forget(tb);
}
