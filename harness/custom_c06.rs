//# target: src/blockchain/proto/script/custom.rs
// C06 (fork coins: tokenisation + templates), C14 (totality), C16 (fork payload).
// Reference tokenizer/typer written from the property text (Bitcoin push rules, five templates,
// NOPs ignored, data slot = any non-empty push).

use crate::verif_models::ghost;

// ------------------------------------------------------------------------------------------
// K push_step: one call of maybe_push_data from an arbitrary position of an arbitrary script.
// Fully symbolic (12-byte buffer, any length, any ip, all 256 opcodes, PUSHDATA4 lengths to
// 2^32-1). Loop-free kernel.
// ------------------------------------------------------------------------------------------
//@ id=C06,C14 tier=quick name=c06_push_step timeout=300 role=push_step bound=buf<=12B,any-ip,all-256-opcodes fn=ScriptEvaluator::maybe_push_data,ScriptEvaluator::read_uint
#[kani::proof]
#[kani::unwind(6)]
fn c06_push_step() {
    let buf: [u8; 12] = kani::any();
    let len: usize = kani::any();
    kani::assume(len <= 12);
    let ip: usize = kani::any();
    kani::assume(ip < len);
    let mut ev = ScriptEvaluator { bytes: &buf[..len], n_bytes: len, ip };
    let opcode = Opcode::from(buf[ip]);
    let class = opcode.classify(ClassifyContext::Legacy);
    let r = ev.maybe_push_data(opcode, class);
    let b = buf[ip];
    kani::cover!(b == 0x4c && ip + 2 <= len, "PUSHDATA1 with length byte");
    kani::cover!(b == 0x4d && ip + 3 > len, "PUSHDATA2 truncated length field");
    kani::cover!(b == 0x4e && ip + 5 <= len && buf[ip + 4] == 0xff, "PUSHDATA4 huge length");
    kani::cover!(b == 0x4b, "direct push 75");
    kani::cover!(b == 0xac, "non-push opcode");
    if b >= 1 && b <= 75 {
        assert!(r == Ok(b as usize) && ev.ip == ip, "C06:direct_push_len");
    } else if b == 0x4c {
        if ip + 2 <= len {
            assert!(r == Ok(buf[ip + 1] as usize), "C06:pushdata1_len_from_next_byte");
            assert!(ev.ip == ip + 1, "C06:pushdata1_ip");
        } else {
            assert!(r == Err(ScriptError::UnexpectedEof), "C06:pushdata1_truncated_eof");
        }
    } else if b == 0x4d {
        if ip + 3 <= len {
            assert!(r == Ok(buf[ip + 1] as usize | (buf[ip + 2] as usize) << 8), "C06:pushdata2_len_le");
            assert!(ev.ip == ip + 2, "C06:pushdata2_ip");
        } else {
            assert!(r == Err(ScriptError::UnexpectedEof), "C06:pushdata2_truncated_eof");
        }
    } else if b == 0x4e {
        if ip + 5 <= len {
            let l = buf[ip + 1] as usize | (buf[ip + 2] as usize) << 8 | (buf[ip + 3] as usize) << 16 | (buf[ip + 4] as usize) << 24;
            assert!(r == Ok(l), "C06:pushdata4_len_le");
            assert!(ev.ip == ip + 4, "C06:pushdata4_ip");
        } else {
            assert!(r == Err(ScriptError::UnexpectedEof), "C06:pushdata4_truncated_eof");
        }
    } else {
        assert!(r == Ok(0) && ev.ip == ip, "C06:non_push_len_zero");
    }
}

// ------------------------------------------------------------------------------------------
// Reference evaluation of a script skeleton.
// ------------------------------------------------------------------------------------------
const MAXTOK: usize = 12;
const PRECAP: usize = 272;
#[derive(Clone, Copy, PartialEq)]
enum Tok { Op(u8), Data(usize, usize), Empty }
#[derive(Clone, Copy, PartialEq, Debug)]
enum RefKind { P2pkh, P2pk, P2sh, OpRet, Multi, Unrec }

fn is_nop(b: u8) -> bool { b == 0x61 || (b >= 0xb0 && b <= 0xb9) }

/// Tokenizes by Bitcoin push rules. Returns None when a push (or its length field) runs past
/// the end. `sym[i]` marks symbolic bytes: the skeleton must never place one where an opcode or
/// a length field is read (would make the structure symbolic) - reported as a model error.
fn ref_tokens(b: &[u8], sym: &[bool], toks: &mut [Tok; MAXTOK]) -> Option<usize> {
    let n = b.len();
    let mut nt = 0;
    let mut ip = 0;
    while ip < n {
        if sym[ip] { panic!("verif model: symbolic byte in opcode position"); }
        let op = b[ip];
        let (start, len, is_push) = if op <= 75 {
            (ip + 1, op as usize, true)
        } else if op == 0x4c {
            if ip + 2 > n { return None; }
            if sym[ip + 1] { panic!("verif model: symbolic length byte"); }
            (ip + 2, b[ip + 1] as usize, true)
        } else if op == 0x4d {
            if ip + 3 > n { return None; }
            if sym[ip + 1] || sym[ip + 2] { panic!("verif model: symbolic length byte"); }
            (ip + 3, b[ip + 1] as usize | (b[ip + 2] as usize) << 8, true)
        } else if op == 0x4e {
            if ip + 5 > n { return None; }
            if sym[ip + 1] || sym[ip + 2] || sym[ip + 3] || sym[ip + 4] { panic!("verif model: symbolic length byte"); }
            (ip + 5, b[ip + 1] as usize | (b[ip + 2] as usize) << 8 | (b[ip + 3] as usize) << 16 | (b[ip + 4] as usize) << 24, true)
        } else {
            (ip + 1, 0, false)
        };
        if is_push {
            if start + len > n { return None; }
            if nt >= MAXTOK { panic!("verif model: token capacity"); }
            toks[nt] = if len == 0 { Tok::Empty } else { Tok::Data(start, len) };
            nt += 1;
            ip = start + len;
        } else {
            if !is_nop(op) {
                if nt >= MAXTOK { panic!("verif model: token capacity"); }
                toks[nt] = Tok::Op(op);
                nt += 1;
            }
            ip += 1;
        }
    }
    Some(nt)
}

fn is_data(t: Tok) -> bool { matches!(t, Tok::Data(_, _)) }

fn ref_kind(t: &[Tok; MAXTOK], nt: usize) -> (RefKind, usize, usize) {
    if nt == 5 && t[0] == Tok::Op(0x76) && t[1] == Tok::Op(0xa9) && is_data(t[2]) && t[3] == Tok::Op(0x88) && t[4] == Tok::Op(0xac) {
        if let Tok::Data(s, l) = t[2] { return (RefKind::P2pkh, s, l); }
    }
    if nt == 2 && is_data(t[0]) && t[1] == Tok::Op(0xac) {
        if let Tok::Data(s, l) = t[0] { return (RefKind::P2pk, s, l); }
    }
    if nt == 3 && t[0] == Tok::Op(0xa9) && is_data(t[1]) && t[2] == Tok::Op(0x87) {
        if let Tok::Data(s, l) = t[1] { return (RefKind::P2sh, s, l); }
    }
    if nt == 2 && t[0] == Tok::Op(0x6a) && is_data(t[1]) {
        if let Tok::Data(s, l) = t[1] { return (RefKind::OpRet, s, l); }
    }
    if nt == 6 && t[0] == Tok::Op(0x52) && is_data(t[1]) && is_data(t[2]) && is_data(t[3]) && t[4] == Tok::Op(0x53) && t[5] == Tok::Op(0xae) {
        return (RefKind::Multi, 0, 0);
    }
    (RefKind::Unrec, 0, 0)
}

// from_utf8_lossy is cut in every skeleton harness ([measured] CBMC also explores the OP_RETURN arm of
// eval_script_pattern for non-OP_RETURN skeletons, and the real conversion did not finish in 15 min
// even on a 1-byte payload): the stub
// records the slice it is handed and returns a sentinel. Dual-mode oracle: CBMC mode checks the
// recorded slice, the native replay compares with the real conversion.
static mut LOSSY_CALLS: crate::verif_models::Tg<usize> = crate::verif_models::Tg { v: 0, tag: 0x5eedc0de0000003f };
static mut LOSSY_LEN: crate::verif_models::Tg<usize> = crate::verif_models::Tg { v: 0, tag: 0x5eedc0de00000040 };
static mut LOSSY_IN: crate::verif_models::Tg<[u8; PRECAP]> = crate::verif_models::Tg { v: [0; PRECAP], tag: 0x5eedc0de00000041 };
fn stub_lossy(v: &[u8]) -> std::borrow::Cow<'_, str> {
    unsafe {
        LOSSY_CALLS.v += 1;
        LOSSY_LEN.v = v.len();
        let mut i = 0;
        while i < v.len() && i < PRECAP { LOSSY_IN.v[i] = v[i]; i += 1; }
    }
    if v.is_empty() { std::borrow::Cow::Borrowed("") } else { std::borrow::Cow::Borrowed("x") }
}
#[cfg(not(test))]
fn lossy_text_ok(text: &str, payload: &[u8]) -> bool {
    unsafe {
        if LOSSY_CALLS.v != 1 || LOSSY_LEN.v != payload.len() { return false; }
        let mut i = 0;
        while i < payload.len() { if LOSSY_IN.v[i] != payload[i] { return false; } i += 1; }
    }
    text == "x"
}
#[cfg(test)]
fn lossy_text_ok(text: &str, payload: &[u8]) -> bool {
    text.as_bytes() == String::from_utf8_lossy(payload).as_bytes()
}

/// Compares the real evaluation of `b` with the reference. `lossy_real`: the real
/// String::from_utf8_lossy is in place (C16 harnesses) so the OP_RETURN text is compared too.
fn check_against_reference(b: &[u8], sym: &[bool], ver: u8, lossy_real: bool) {
    let r = eval_from_bytes_custom(b, ver);
    let mut toks = [Tok::Empty; MAXTOK];
    let (kind, s, l) = match ref_tokens(b, sym, &mut toks) {
        Some(nt) => ref_kind(&toks, nt),
        None => (RefKind::Unrec, 0, 0),
    };
    assert!(!matches!(r.pattern, ScriptPattern::Error(_)), "C06:evaluation_never_fails");
    match kind {
        RefKind::P2pkh | RefKind::P2sh => {
            let v = if kind == RefKind::P2pkh { ver } else { 0x05 };
            if kind == RefKind::P2pkh {
                assert!(r.pattern == ScriptPattern::Pay2PublicKeyHash, "C06:type_p2pkh");
            } else {
                assert!(r.pattern == ScriptPattern::Pay2ScriptHash, "C06:type_p2sh");
            }
            let mut pre = [0u8; PRECAP];
            pre[0] = v;
            let mut i = 0;
            while i < l { pre[1 + i] = b[s + i]; i += 1; }
            let ck = ghost::sha256d_call(0, &pre[..1 + l]);
            assert!(ck.is_some(), "C06:checksum_preimage_is_version_plus_hash");
            let ck = ck.unwrap_or([0; 32]);
            let mut i = 0;
            while i < 4 { pre[1 + l + i] = ck[i]; i += 1; }
            assert!(ghost::b58_payload_is(&pre[..5 + l]), "C06:base58_payload_is_version_hash_checksum");
            assert!(ghost::b58_addr_ok(r.address.as_deref(), &pre[..5 + l]), "C06:address_text");
        }
        RefKind::P2pk => {
            assert!(r.pattern == ScriptPattern::Pay2PublicKey, "C06:type_p2pk");
            let h = ghost::hash160_call(0, &b[s..s + l]);
            assert!(h.is_some(), "C06:hash160_of_pushed_key");
            let h = h.unwrap_or([0; 20]);
            let mut pre = [0u8; 25];
            pre[0] = ver;
            let mut i = 0;
            while i < 20 { pre[1 + i] = h[i]; i += 1; }
            let ck = ghost::sha256d_call(1, &pre[..21]);
            assert!(ck.is_some(), "C06:checksum_preimage_is_version_plus_hash160");
            let ck = ck.unwrap_or([0; 32]);
            let mut i = 0;
            while i < 4 { pre[21 + i] = ck[i]; i += 1; }
            assert!(ghost::b58_payload_is(&pre[..25]), "C06:base58_payload_is_version_hash160_checksum");
            assert!(ghost::b58_addr_ok(r.address.as_deref(), &pre[..25]), "C06:address_text");
        }
        RefKind::OpRet => {
            assert!(matches!(r.pattern, ScriptPattern::OpReturn(_)), "C06:type_opreturn");
            assert!(r.address.is_none(), "C06:no_address_for_opreturn");
            assert!(ghost::n_encoder_calls(0) == 0, "C06:no_encoder_call");
            if let ScriptPattern::OpReturn(ref text) = r.pattern {
                if lossy_real {
                    let want = String::from_utf8_lossy(&b[s..s + l]);
                    assert!(text.as_bytes() == want.as_bytes(), "C16:fork_payload_is_lossy_utf8_of_push");
                } else {
                    assert!(lossy_text_ok(text, &b[s..s + l]), "C16:fork_payload_is_lossy_utf8_of_push");
                }
                assert!(!text.is_empty(), "C16:fork_nonempty_payload_prints");
            }
        }
        RefKind::Multi => {
            assert!(r.pattern == ScriptPattern::Pay2MultiSig, "C06:type_multisig_2of3");
            assert!(r.address.is_none(), "C06:no_address_for_multisig");
            assert!(ghost::n_encoder_calls(0) == 0, "C06:no_encoder_call");
        }
        RefKind::Unrec => {
            assert!(r.pattern == ScriptPattern::NotRecognised, "C06:type_unrecognised");
            assert!(r.address.is_none(), "C06:no_address_for_unrecognised");
            assert!(ghost::n_encoder_calls(0) == 0, "C06:no_encoder_call");
        }
    }
    kani::cover!(true, "reference and implementation compared");
    core::mem::forget(r);
}

// Skeleton builder: b(x) concrete byte, s(k) k payload bytes (symbolic, or adversarial constants
// in the `conc` twin), ver: coin version byte.
macro_rules! seg {
    ($buf:ident, $sym:ident, $n:ident, $conc:expr, b($x:expr)) => {
        $buf[$n] = $x; $n += 1;
    };
    ($buf:ident, $sym:ident, $n:ident, $conc:expr, s($k:expr)) => {
        let mut j = 0;
        while j < $k {
            if $conc {
                const ADV: [u8; 7] = [0x4c, 0x6a, 0x00, 0x4e, 0xff, 0x88, 0x61];
                $buf[$n] = ADV[($n + j) % 7];
            } else {
                $buf[$n] = kani::any();
                $sym[$n] = true;
            }
            $n += 1;
            j += 1;
        }
    };
}

macro_rules! skel {
    ($name:ident, $cap:expr, $unw:expr, $conc:expr, $lossy_real:expr, $ver:expr, [$($kind:ident($arg:expr)),*]) => {
        #[kani::proof]
        #[kani::unwind($unw)]
        #[kani::stub(<bitcoin::hashes::sha256::HashEngine as bitcoin::hashes::HashEngine>::input, ghost::stub_engine_input)]
        #[kani::stub(<bitcoin::hashes::sha256d::Hash as bitcoin::hashes::Hash>::from_engine, ghost::stub_sha256d_fin)]
        #[kani::stub(<bitcoin::hashes::hash160::Hash as bitcoin::hashes::Hash>::from_engine, ghost::stub_hash160_fin)]
        #[kani::stub(bitcoin::base58::encode, ghost::stub_b58)]
        #[kani::stub(std::string::String::from_utf8_lossy, stub_lossy)]
        fn $name() {
            ghost::init(kani::any());
            let mut buf = [0u8; $cap];
            let mut sym = [false; $cap];
            let mut n = 0usize;
            $( seg!(buf, sym, n, $conc, $kind($arg)); )*
            let ver: u8 = $ver;
            let _ = $lossy_real;
            check_against_reference(&buf[..n], &sym[..n], ver, false);
        }
    };
}
// same, with String::from_utf8_lossy cut (OP_RETURN skeletons with long payloads; C06 only
// asserts the kind there, the text is C16's claim on short payloads with the real function)
macro_rules! skel_nolossy {
    ($name:ident, $cap:expr, $unw:expr, $conc:expr, $ver:expr, [$($kind:ident($arg:expr)),*]) => {
        #[kani::proof]
        #[kani::unwind($unw)]
        #[kani::stub(<bitcoin::hashes::sha256::HashEngine as bitcoin::hashes::HashEngine>::input, ghost::stub_engine_input)]
        #[kani::stub(<bitcoin::hashes::sha256d::Hash as bitcoin::hashes::Hash>::from_engine, ghost::stub_sha256d_fin)]
        #[kani::stub(<bitcoin::hashes::hash160::Hash as bitcoin::hashes::Hash>::from_engine, ghost::stub_hash160_fin)]
        #[kani::stub(bitcoin::base58::encode, ghost::stub_b58)]
        #[kani::stub(std::string::String::from_utf8_lossy, stub_lossy)]
        fn $name() {
            ghost::init(kani::any());
            let mut buf = [0u8; $cap];
            let mut sym = [false; $cap];
            let mut n = 0usize;
            $( seg!(buf, sym, n, $conc, $kind($arg)); )*
            let ver: u8 = $ver;
            check_against_reference(&buf[..n], &sym[..n], ver, false);
        }
    };
}

// ---- templates, direct pushes, symbolic payload + symbolic version byte ----------------------
//@ id=C06,C14 tier=quick name=c06_t_p2pkh_d20 timeout=1200 role=templates bound=P2PKH,direct-push-20,payload+version-symbolic
skel!(c06_t_p2pkh_d20, 32, 40, false, false, kani::any(), [b(0x76), b(0xa9), b(0x14), s(20), b(0x88), b(0xac)]);
//@ id=C06,C14 tier=quick name=c06_t_p2pk_d5 timeout=1200 role=templates bound=P2PK,direct-push-5,payload+version-symbolic
skel!(c06_t_p2pk_d5, 8, 40, false, false, kani::any(), [b(0x05), s(5), b(0xac)]);
//@ id=C06,C14 tier=thorough name=c06_t_p2pk_d33 timeout=5400 role=templates bound=P2PK,direct-push-33,payload+version-symbolic mem=24
skel!(c06_t_p2pk_d33, 40, 40, false, false, kani::any(), [b(0x21), s(33), b(0xac)]);
//@ id=C06,C14 tier=quick name=c06_t_p2sh_d20 timeout=1200 role=templates bound=P2SH,direct-push-20,payload+version-symbolic
skel!(c06_t_p2sh_d20, 32, 40, false, false, kani::any(), [b(0xa9), b(0x14), s(20), b(0x87)]);
//@ id=C06,C14,C16 tier=quick name=c06_t_opret_d3 timeout=600 role=templates bound=OP_RETURN,direct-push-3,payload-handed-to-from_utf8_lossy-recorded
skel_nolossy!(c06_t_opret_d3, 8, 40, false, kani::any(), [b(0x6a), b(0x03), s(3)]);
//@ id=C06,C14,C16 tier=quick name=c06_t_opret_d40 timeout=900 role=templates bound=OP_RETURN,direct-push-40
skel_nolossy!(c06_t_opret_d40, 48, 48, false, kani::any(), [b(0x6a), b(0x28), s(40)]);
//@ id=C06,C14 tier=quick name=c06_t_multi_d1 timeout=600 role=templates bound=2-of-3,three-1-byte-keys
skel!(c06_t_multi_d1, 16, 40, false, false, kani::any(), [b(0x52), b(0x01), s(1), b(0x01), s(1), b(0x01), s(1), b(0x53), b(0xae)]);

// ---- PUSHDATA1/2/4 forms in the data slot ------------------------------------------------------
//@ id=C06,C14 tier=quick name=c06_t_p2pkh_pd1 timeout=1200 role=templates bound=P2PKH,PUSHDATA1-20
skel!(c06_t_p2pkh_pd1, 32, 40, false, false, kani::any(), [b(0x76), b(0xa9), b(0x4c), b(0x14), s(20), b(0x88), b(0xac)]);
//@ id=C06,C14 tier=quick name=c06_t_p2sh_pd2 timeout=1200 role=templates bound=P2SH,PUSHDATA2-20
skel!(c06_t_p2sh_pd2, 32, 40, false, false, kani::any(), [b(0xa9), b(0x4d), b(0x14), b(0x00), s(20), b(0x87)]);
//@ id=C06,C14 tier=quick name=c06_t_p2pk_pd4 timeout=1200 role=templates bound=P2PK,PUSHDATA4-4
skel!(c06_t_p2pk_pd4, 16, 40, false, false, kani::any(), [b(0x4e), b(0x04), b(0x00), b(0x00), b(0x00), s(4), b(0xac)]);
//@ id=C06,C14,C16 tier=quick name=c06_t_opret_pd1 timeout=600 role=templates bound=OP_RETURN,PUSHDATA1-3,payload-handed-to-from_utf8_lossy-recorded
skel_nolossy!(c06_t_opret_pd1, 8, 40, false, kani::any(), [b(0x6a), b(0x4c), b(0x03), s(3)]);
//@ id=C06,C14,C16 tier=quick name=c06_t_opret_pd2 timeout=600 role=templates bound=OP_RETURN,PUSHDATA2-2,payload-handed-to-from_utf8_lossy-recorded
skel_nolossy!(c06_t_opret_pd2, 8, 40, false, kani::any(), [b(0x6a), b(0x4d), b(0x02), b(0x00), s(2)]);
//@ id=C06,C14,C16 tier=quick name=c06_t_opret_pd4 timeout=600 role=templates bound=OP_RETURN,PUSHDATA4-1,payload-handed-to-from_utf8_lossy-recorded
skel_nolossy!(c06_t_opret_pd4, 8, 40, false, kani::any(), [b(0x6a), b(0x4e), b(0x01), b(0x00), b(0x00), b(0x00), s(1)]);

// ---- concrete adversarial twins (fully concrete input: finish whatever the code does) ----------
//@ id=C06,C14 tier=quick name=c06_c_p2pkh_d20 timeout=1200 role=templates_concrete bound=P2PKH,adversarial-constant-payload
skel!(c06_c_p2pkh_d20, 32, 40, true, false, 0x30, [b(0x76), b(0xa9), b(0x14), s(20), b(0x88), b(0xac)]);
//@ id=C06,C14 tier=quick name=c06_c_p2pkh_pd1 timeout=1200 role=templates_concrete bound=P2PKH,PUSHDATA1,adversarial-constant-payload
skel!(c06_c_p2pkh_pd1, 32, 40, true, false, 0x1e, [b(0x76), b(0xa9), b(0x4c), b(0x14), s(20), b(0x88), b(0xac)]);
//@ id=C06,C14 tier=quick name=c06_c_p2pk_pd2 timeout=1200 role=templates_concrete bound=P2PK,PUSHDATA2,adversarial-constant-payload
skel!(c06_c_p2pk_pd2, 48, 40, true, false, 0x34, [b(0x4d), b(0x21), b(0x00), s(33), b(0xac)]);
//@ id=C06,C14 tier=quick name=c06_c_p2sh_pd4 timeout=1200 role=templates_concrete bound=P2SH,PUSHDATA4,adversarial-constant-payload
skel!(c06_c_p2sh_pd4, 32, 40, true, false, 0x32, [b(0xa9), b(0x4e), b(0x14), b(0x00), b(0x00), b(0x00), s(20), b(0x87)]);
//@ id=C06,C14 tier=quick name=c06_c_multi_d33 timeout=300 role=templates_concrete bound=2-of-3,33-byte-keys,adversarial-constant-payload
skel!(c06_c_multi_d33, 112, 40, true, false, 0x82, [b(0x52), b(0x21), s(33), b(0x21), s(33), b(0x21), s(33), b(0x53), b(0xae)]);

// ---- variants: NOP insertion, zero-length push, truncation, opcode replacement ----------------
//@ id=C06,C14 tier=quick name=c06_v_p2pkh_nops timeout=1200 role=variants bound=P2PKH,NOP-at-every-boundary
skel!(c06_v_p2pkh_nops, 40, 40, false, false, kani::any(), [b(0x61), b(0x76), b(0xb1), b(0xa9), b(0xb0), b(0x14), s(20), b(0xb9), b(0x88), b(0x61), b(0xac), b(0xb2)]);
//@ id=C06,C14 tier=quick name=c06_v_p2pkh_zero timeout=300 role=variants bound=P2PKH-with-OP_0-in-data-slot
skel!(c06_v_p2pkh_zero, 8, 40, false, false, kani::any(), [b(0x76), b(0xa9), b(0x00), b(0x88), b(0xac)]);
//@ id=C06,C14 tier=quick name=c06_v_p2sh_zero_pd1 timeout=300 role=variants bound=P2SH-with-PUSHDATA1-0-in-data-slot
skel!(c06_v_p2sh_zero_pd1, 8, 40, false, false, kani::any(), [b(0xa9), b(0x4c), b(0x00), b(0x87)]);
//@ id=C06,C14 tier=quick name=c06_v_p2pkh_trunc timeout=600 role=variants bound=P2PKH-last-push-truncated-by-one
skel!(c06_v_p2pkh_trunc, 32, 40, false, false, kani::any(), [b(0x76), b(0xa9), b(0x14), s(19)]);
//@ id=C06,C14 tier=quick name=c06_v_p2pk_trunc_pd2 timeout=600 role=variants bound=P2PK-PUSHDATA2-length-field-truncated
skel!(c06_v_p2pk_trunc_pd2, 8, 40, false, false, kani::any(), [b(0x4d), b(0x21)]);
//@ id=C06,C14 tier=quick name=c06_v_p2pk_exact_end timeout=600 role=variants bound=push-ending-exactly-at-script-end
skel!(c06_v_p2pk_exact_end, 8, 40, false, false, kani::any(), [b(0x05), s(5)]);
//@ id=C06,C14 tier=quick name=c06_v_p2pkh_wrongop timeout=600 role=variants bound=P2PKH-with-OP_EQUAL-instead-of-EQUALVERIFY
skel!(c06_v_p2pkh_wrongop, 32, 40, false, false, kani::any(), [b(0x76), b(0xa9), b(0x14), s(20), b(0x87), b(0xac)]);
//@ id=C06,C14 tier=quick name=c06_v_p2pkh_extra timeout=600 role=variants bound=P2PKH-followed-by-extra-opcode
skel!(c06_v_p2pkh_extra, 32, 40, false, false, kani::any(), [b(0x76), b(0xa9), b(0x14), s(20), b(0x88), b(0xac), b(0xac)]);
//@ id=C06,C14 tier=quick name=c06_v_multi_1of3 timeout=600 role=variants bound=1-of-3-is-not-the-2-of-3-template
skel!(c06_v_multi_1of3, 16, 40, false, false, kani::any(), [b(0x51), b(0x01), s(1), b(0x01), s(1), b(0x01), s(1), b(0x53), b(0xae)]);
//@ id=C06,C14 tier=quick name=c06_v_empty timeout=300 role=variants bound=empty-script
skel!(c06_v_empty, 4, 40, false, false, kani::any(), []);
//@ id=C06,C14 tier=quick name=c06_v_opret_two timeout=600 role=variants bound=OP_RETURN-with-two-pushes-is-not-the-template
skel_nolossy!(c06_v_opret_two, 8, 40, false, kani::any(), [b(0x6a), b(0x01), s(1), b(0x01), s(1)]);

// ---- thorough: payload lengths at the push-form boundaries ---------------------------------------
//@ id=C06,C14 tier=thorough name=c06_t_p2pkh_d75 timeout=1500 role=templates bound=P2PKH,direct-push-75 fsarr=512
skel!(c06_t_p2pkh_d75, 96, 90, false, false, kani::any(), [b(0x76), b(0xa9), b(0x4b), s(75), b(0x88), b(0xac)]);
//@ id=C06,C14 tier=thorough name=c06_t_p2pkh_pd1_76 timeout=1500 role=templates bound=P2PKH,PUSHDATA1-76 fsarr=512
skel!(c06_t_p2pkh_pd1_76, 96, 90, false, false, kani::any(), [b(0x76), b(0xa9), b(0x4c), b(0x4c), s(76), b(0x88), b(0xac)]);
//@ id=C06,C14 tier=extra name=c06_t_p2sh_pd1_255 timeout=2400 role=templates bound=P2SH,PUSHDATA1-255 fsarr=512 mem=20
skel_nolossy!(c06_t_p2sh_pd1_255, 272, 270, false, kani::any(), [b(0xa9), b(0x4c), b(0xff), s(255), b(0x87)]);
//@ id=C06,C14 tier=extra name=c06_t_p2sh_pd2_256 timeout=2400 role=templates bound=P2SH,PUSHDATA2-256 fsarr=512 mem=20
skel_nolossy!(c06_t_p2sh_pd2_256, 272, 270, false, kani::any(), [b(0xa9), b(0x4d), b(0x00), b(0x01), s(256), b(0x87)]);
//@ id=C06,C14 tier=thorough name=c06_t_multi_d33 timeout=2400 role=templates bound=2-of-3,33-byte-keys,symbolic fsarr=512
skel!(c06_t_multi_d33, 112, 40, false, false, kani::any(), [b(0x52), b(0x21), s(33), b(0x21), s(33), b(0x21), s(33), b(0x53), b(0xae)]);
//@ id=C06,C14 tier=thorough name=c06_t_p2pk_d65 timeout=1500 role=templates bound=P2PK,direct-push-65 fsarr=512
skel!(c06_t_p2pk_d65, 72, 80, false, false, kani::any(), [b(0x41), s(65), b(0xac)]);

// ---- one_token: eval on [op] || tail for each class-boundary opcode -----------------------------
// Structure concrete (opcode enumerated), tail content symbolic where it is push payload.
macro_rules! one_op {
    ($name:ident, $op:expr) => {
        skel_nolossy!($name, 4, 40, false, kani::any(), [b($op)]);
    };
}
//@ id=C06,C14 tier=quick name=c06_o_00 timeout=300 role=one_token bound=single-opcode-0x00
one_op!(c06_o_00, 0x00);
//@ id=C06,C14 tier=quick name=c06_o_4f timeout=300 role=one_token bound=single-opcode-0x4f
one_op!(c06_o_4f, 0x4f);
//@ id=C06,C14 tier=quick name=c06_o_61 timeout=300 role=one_token bound=single-NOP
one_op!(c06_o_61, 0x61);
//@ id=C06,C14 tier=quick name=c06_o_6a timeout=300 role=one_token bound=single-OP_RETURN
one_op!(c06_o_6a, 0x6a);
//@ id=C06,C14 tier=quick name=c06_o_ac timeout=300 role=one_token bound=single-OP_CHECKSIG
one_op!(c06_o_ac, 0xac);
//@ id=C06,C14 tier=quick name=c06_o_ff timeout=300 role=one_token bound=single-opcode-0xff
one_op!(c06_o_ff, 0xff);
//@ id=C06,C14 tier=quick name=c06_o_4c_only timeout=300 role=one_token bound=PUSHDATA1-without-length-byte
one_op!(c06_o_4c_only, 0x4c);
//@ id=C06,C14 tier=quick name=c06_o_4e_only timeout=300 role=one_token bound=PUSHDATA4-without-length-field
one_op!(c06_o_4e_only, 0x4e);
//@ id=C06,C14 tier=quick name=c06_o_01_1 timeout=300 role=one_token bound=push1+1-byte
skel_nolossy!(c06_o_01_1, 4, 40, false, kani::any(), [b(0x01), s(1)]);
//@ id=C06,C14 tier=quick name=c06_o_02_1 timeout=300 role=one_token bound=push2-with-only-1-byte
skel_nolossy!(c06_o_02_1, 4, 40, false, kani::any(), [b(0x02), s(1)]);
//@ id=C06,C14 tier=quick name=c06_o_4b_5 timeout=300 role=one_token bound=push75-with-5-bytes
skel_nolossy!(c06_o_4b_5, 8, 40, false, kani::any(), [b(0x4b), s(5)]);
//@ id=C06,C14 tier=quick name=c06_o_pd4_huge timeout=300 role=one_token bound=PUSHDATA4-length-0xffffffff
skel_nolossy!(c06_o_pd4_huge, 8, 40, false, kani::any(), [b(0x4e), b(0xff), b(0xff), b(0xff), b(0xff), s(2)]);
//@ id=C06,C14 tier=quick name=c06_o_pd2_over timeout=300 role=one_token bound=PUSHDATA2-length-one-past-end
skel_nolossy!(c06_o_pd2_over, 8, 40, false, kani::any(), [b(0x4d), b(0x03), b(0x00), s(2)]);

// ---- coin table (concrete evaluation) ------------------------------------------------------------
//@ id=C06,C12 tier=quick name=c06_coin_table timeout=600 role=coin_table bound=six-fork-coins+two-bitcoin-networks
#[kani::proof]
#[kani::unwind(4)]
fn c06_coin_table() {
    use crate::blockchain::parser::types::*;
    assert!(Namecoin.version_id() == 0x34, "C06:version_namecoin");
    assert!(Litecoin.version_id() == 0x30, "C06:version_litecoin");
    assert!(Dogecoin.version_id() == 0x1e, "C06:version_dogecoin");
    assert!(Myriadcoin.version_id() == 0x32, "C06:version_myriadcoin");
    assert!(Unobtanium.version_id() == 0x82, "C06:version_unobtanium");
    assert!(NoteBlockchain.version_id() == 0x35, "C06:version_noteblockchain");
    assert!(Bitcoin.version_id() == 0x00 && TestNet3.version_id() == 0x6f, "C05:version_bitcoin_testnet");
    assert!(Namecoin.aux_pow_activation_version() == Some(0x10101), "C12:auxpow_threshold_namecoin");
    assert!(Dogecoin.aux_pow_activation_version() == Some(0x620102), "C12:auxpow_threshold_dogecoin");
    assert!(Litecoin.aux_pow_activation_version().is_none() && Myriadcoin.aux_pow_activation_version().is_none()
        && Unobtanium.aux_pow_activation_version().is_none() && NoteBlockchain.aux_pow_activation_version().is_none()
        && Bitcoin.aux_pow_activation_version().is_none() && TestNet3.aux_pow_activation_version().is_none(), "C12:no_auxpow_for_other_coins");
    kani::cover!(true, "coin table evaluated");
}

// ---- more "template followed by something" / "template preceded by something" variants -------
//@ id=C06,C14 tier=quick name=c06_v_multi_extra timeout=600 role=variants bound=2-of-3-followed-by-OP_DROP
skel!(c06_v_multi_extra, 16, 40, false, false, kani::any(), [b(0x52), b(0x01), s(1), b(0x01), s(1), b(0x01), s(1), b(0x53), b(0xae), b(0x75)]);
//@ id=C06,C14 tier=quick name=c06_v_multi_trailing_trunc timeout=600 role=variants bound=2-of-3-followed-by-truncated-PUSHDATA1
skel!(c06_v_multi_trailing_trunc, 16, 40, false, false, kani::any(), [b(0x52), b(0x01), s(1), b(0x01), s(1), b(0x01), s(1), b(0x53), b(0xae), b(0x4c), b(0xff), b(0x00)]);
//@ id=C06,C14 tier=quick name=c06_v_p2sh_extra_push timeout=600 role=variants bound=P2SH-followed-by-a-push
skel!(c06_v_p2sh_extra_push, 32, 40, false, false, kani::any(), [b(0xa9), b(0x14), s(20), b(0x87), b(0x01), s(1)]);
//@ id=C06,C14 tier=quick name=c06_v_p2pk_leading_op timeout=600 role=variants bound=P2PK-preceded-by-OP_DUP
skel!(c06_v_p2pk_leading_op, 40, 40, false, false, kani::any(), [b(0x76), b(0x21), s(33), b(0xac)]);
//@ id=C06,C14 tier=quick name=c06_v_multi_4keys timeout=600 role=variants bound=2-of-4-is-not-the-2-of-3-template
skel!(c06_v_multi_4keys, 16, 40, false, false, kani::any(), [b(0x52), b(0x01), s(1), b(0x01), s(1), b(0x01), s(1), b(0x01), s(1), b(0x54), b(0xae)]);
//@ id=C06,C14 tier=quick name=c06_v_seven_ops timeout=600 role=variants bound=seven-non-push-opcodes
skel!(c06_v_seven_ops, 16, 40, false, false, kani::any(), [b(0x76), b(0x76), b(0x76), b(0x76), b(0x76), b(0x76), b(0x76)]);

// ---- C14 long sweep on the fork path: [head] k x [t] -------------------------------------------
macro_rules! long_sweep_fork {
    ($name:ident, $k:expr, $head:expr, $t:expr, $unw:expr) => {
        #[kani::proof]
        #[kani::unwind($unw)]
        #[kani::stub(<bitcoin::hashes::sha256::HashEngine as bitcoin::hashes::HashEngine>::input, ghost::stub_engine_input)]
        #[kani::stub(<bitcoin::hashes::sha256d::Hash as bitcoin::hashes::Hash>::from_engine, ghost::stub_sha256d_fin)]
        #[kani::stub(<bitcoin::hashes::hash160::Hash as bitcoin::hashes::Hash>::from_engine, ghost::stub_hash160_fin)]
        #[kani::stub(bitcoin::base58::encode, ghost::stub_b58)]
        #[kani::stub(std::string::String::from_utf8_lossy, stub_lossy)]
        fn $name() {
            const L: usize = 1 + $k;
            let mut s = [0u8; L];
            s[0] = $head;
            let mut i = 0;
            while i < $k { s[1 + i] = $t; i += 1; }
            let ver: u8 = kani::any();
            let r = eval_from_bytes_custom(&s, ver);
            assert!(r.pattern == ScriptPattern::NotRecognised && r.address.is_none(), "C06:type_unrecognised");
            kani::cover!(true, "long script evaluated without panic");
            core::mem::forget(r);
        }
    };
}
//@ id=C14,C06 tier=quick name=c14_sweep_fork_ops300 timeout=1800 role=long_sweep bound=OP_DUP+300xOP_CHECKSIG fsarr=1024
long_sweep_fork!(c14_sweep_fork_ops300, 300, 0x76, 0xac, 310);
//@ id=C14,C06 tier=quick name=c14_sweep_fork_nops300 timeout=1800 role=long_sweep bound=OP_DUP+300xOP_NOP fsarr=1024
long_sweep_fork!(c14_sweep_fork_nops300, 300, 0x76, 0x61, 310);
//@ id=C14,C06 tier=thorough name=c14_sweep_fork_zeros300 timeout=2400 role=long_sweep bound=OP_2+300xOP_0 fsarr=1024
long_sweep_fork!(c14_sweep_fork_zeros300, 300, 0x52, 0x00, 310);
