//# target: src/blockchain/parser/chain.rs
//# models: hashmap fs hook_read_block
//# needs: index_c02.rs blkfile_c03.rs reader_c01.rs
// C02/C03 get_block_one (dispatch to the file/offset the record names), C17 close rule (one
// inductive step from an arbitrary invariant-satisfying open/closed state), C09 verify_iff.

use crate::blockchain::parser::index::vk_index_c02 as ix;
use crate::blockchain::parser::blkfile::vk_blkfile_c03 as bx;
use crate::verif_models::hooks;
use crate::verif_models::fs as gfs;

/// Builds a ChainStorage field by field on zeroed memory instead of with a struct literal, so that the
/// harnesses still compile (and still exercise the real methods) when a change adds a field to the struct,
/// e.g. a cache; such a field starts zeroed (None / 0 / false).
pub fn mk_cs(chain_index: ChainIndex, blk_files: HashMap<u64, BlkFile>, coin: CoinType, verify: bool) -> ChainStorage {
    unsafe {
        let mut cs = core::mem::MaybeUninit::<ChainStorage>::zeroed();
        let p = cs.as_mut_ptr();
        core::ptr::write(core::ptr::addr_of_mut!((*p).chain_index), chain_index);
        core::ptr::write(core::ptr::addr_of_mut!((*p).blk_files), blk_files);
        core::ptr::write(core::ptr::addr_of_mut!((*p).coin), coin);
        core::ptr::write(core::ptr::addr_of_mut!((*p).verify), verify);
        cs.assume_init()
    }
}
pub fn mk_storage_stub(max_height: u64) -> ChainStorage {
    mk_cs(ix::mk_index(max_height, ix::new_map(), ix::new_map()), HashMap::new(), ix::mk_coin(0, None), false)
}

// The height -> file assignment is part of the shape (concrete per instance: a symbolic assignment
// makes the keys of the two maps symbolic and did not finish in 25 min); offsets (full-width u64), the
// queried height and the open/closed pre-state are symbolic.
macro_rules! get_block_one {
    ($name:ident, $t:expr, [$f0:expr, $f1:expr, $f2:expr, $f3:expr], $hq:expr) => {
        #[kani::proof]
        #[kani::unwind(8)]
        #[kani::stub(crate::blockchain::proto::script::eval_from_bytes, crate::blockchain::parser::reader::vk_reader_c01::stub_eval)]
        #[kani::stub(<bitcoin::hashes::sha256::HashEngine as bitcoin::hashes::HashEngine>::input, crate::verif_models::ghost::stub_engine_input)]
        #[kani::stub(<bitcoin::hashes::sha256d::Hash as bitcoin::hashes::Hash>::from_engine, crate::verif_models::ghost::stub_sha256d_fin)]
        #[kani::stub(<bitcoin::hashes::hash160::Hash as bitcoin::hashes::Hash>::from_engine, crate::verif_models::ghost::stub_hash160_fin)]
        fn $name() {
            const T: usize = $t;
            // layout: height -> file in {0,1,2}; files 0 and 1 exist, 2 does not
            const FILE: [usize; 4] = [$f0, $f1, $f2, $f3];
            let off: [u64; 4] = kani::any();
            let mut bi = ix::new_map();
            let mut mhb: HashMap<u64, u64> = ix::new_map();
            let mut last = [-1i64; 3];
            let mut h = 0usize;
            while h <= T {
                bi.insert(h as u64, ix::mk_record([0; 32], h as u64, FILE[h] as u64, off[h]));
                last[FILE[h]] = h as i64;
                h += 1;
            }
            let mut f = 0usize;
            while f < 3 { if last[f] >= 0 { mhb.insert(f as u64, last[f] as u64); } f += 1; }
            let mut files: HashMap<u64, BlkFile> = HashMap::new();
            files.insert(0, bx::mk_blkfile(0));
            files.insert(1, bx::mk_blkfile(1));
            // arbitrary open/closed pre-state satisfying the invariant for the current height
            // the queried height is part of the shape as well (a symbolic height makes the looked-up file,
            // hence the BlkFile being opened/closed, a multi-target pointer: no result in 20 min)
            let hq: u64 = $hq;
            let pre_open: [bool; 2] = kani::any();
            let mut f = 0usize;
            while f < 2 {
                if pre_open[f] {
                    kani::assume(last[f] >= hq as i64); // invariant: an open file still holds a block of a height >= hq
                    bx::force_open(files.get_mut(&(f as u64)).unwrap());
                }
                f += 1;
            }
            let opens_before = unsafe { gfs::OPENS.v };
            let mut cs = mk_cs(ix::mk_index(T as u64, bi, mhb), files, ix::mk_coin(0, None), false);
            unsafe { hooks::RB_STUB_ON.v = true; }
            let r = cs.get_block(hq);
            let calls = unsafe { hooks::RB_CALLS.v };
            if hq > T as u64 {
                match r {
                    Ok(None) => {}
                    _ => { assert!(false, "C02:get_block_past_the_index_is_none"); }
                }
                assert!(calls == 0, "C02:no_read_past_the_index");
            } else {
                let f = FILE[hq as usize];
                if f == 2 {
                    assert!(r.is_err(), "C10:missing_blk_file_is_an_error");
                    assert!(calls == 0, "C03:no_read_from_other_file");
                } else {
                    match r {
                        Ok(Some(ref b)) => {
                            assert!(calls == 1, "C03:exactly_one_read");
                            let (rf, ro) = unsafe { (hooks::RB_FILE.v[0], hooks::RB_OFFSET.v[0]) };
                            assert!(rf == f as u64, "C03:block_read_from_the_file_its_record_names");
                            assert!(ro == off[hq as usize], "C03:block_read_at_the_offset_its_record_names");
                            assert!(b.header.value.version == f as u32 && b.size == off[hq as usize] as u32, "C03:delivered_block_is_the_one_read");
                        }
                        _ => { assert!(false, "C03:indexed_block_is_delivered"); }
                    }
                    // C17: close rule and transparent reopen
                    let fo = bx::is_open(cs.blk_files.get(&(f as u64)).unwrap());
                    assert!(fo == ((hq as i64) < last[f]), "C17:file_closed_iff_its_highest_block_was_delivered");
                    let reopened = unsafe { gfs::OPENS.v[f] } - opens_before[f];
                    assert!(reopened == if pre_open[f] { 0 } else { 1 }, "C17:closed_file_is_reopened_exactly_once");
                    let g = 1 - f;
                    assert!(bx::is_open(cs.blk_files.get(&(g as u64)).unwrap()) == pre_open[g], "C17:other_files_untouched");
                    // invariant re-established for hq+1
                    let mut k = 0usize;
                    while k < 2 {
                        if bx::is_open(cs.blk_files.get(&(k as u64)).unwrap()) {
                            assert!(last[k] >= hq as i64 + 1 || (k != f && last[k] >= hq as i64), "C17:open_files_hold_a_block_yet_to_come");
                        }
                        k += 1;
                    }
                }
            }
            kani::cover!(hq > T as u64 || off[hq as usize] > u32::MAX as u64, "offset beyond 4 GiB");
            kani::cover!(!pre_open[0] || !pre_open[1], "a file is closed beforehand");
            core::mem::forget(r);
            core::mem::forget(cs);
        }
    };
}

//@ id=C02,C03,C17,C10 tier=quick name=c02_gbo_01_h0 timeout=1200 role=get_block_one bound=heights-0,1-in-files-0,1,queried-height-0,offsets-full-u64,any-open/closed-pre-state fn=ChainStorage::get_block,ChainIndex::get,ChainIndex::max_height_by_blk,BlkFile::open,BlkFile::close
get_block_one!(c02_gbo_01_h0, 1, [0, 1, 0, 0], 0);
//@ id=C02,C03,C17,C10 tier=quick name=c02_gbo_01_h1 timeout=1200 role=get_block_one bound=heights-0,1-in-files-0,1,queried-height-1,offsets-full-u64,any-open/closed-pre-state fn=ChainStorage::get_block,ChainIndex::get,ChainIndex::max_height_by_blk,BlkFile::open,BlkFile::close
get_block_one!(c02_gbo_01_h1, 1, [0, 1, 0, 0], 1);
//@ id=C02,C03,C17,C10 tier=quick name=c02_gbo_01_h2 timeout=1200 role=get_block_one bound=heights-0,1-in-files-0,1,queried-height-2,offsets-full-u64,any-open/closed-pre-state fn=ChainStorage::get_block,ChainIndex::get,ChainIndex::max_height_by_blk,BlkFile::open,BlkFile::close
get_block_one!(c02_gbo_01_h2, 1, [0, 1, 0, 0], 2);
//@ id=C02,C03,C17,C10 tier=thorough name=c02_gbo_0101_h0 timeout=1200 role=get_block_one bound=heights-0..3-interleaved-in-files-0,1,0,1,queried-height-0,offsets-full-u64,any-open/closed-pre-state fn=ChainStorage::get_block,ChainIndex::get,ChainIndex::max_height_by_blk,BlkFile::open,BlkFile::close
get_block_one!(c02_gbo_0101_h0, 3, [0, 1, 0, 1], 0);
//@ id=C02,C03,C17,C10 tier=quick name=c02_gbo_0101_h1 timeout=1200 role=get_block_one bound=heights-0..3-interleaved-in-files-0,1,0,1,queried-height-1,offsets-full-u64,any-open/closed-pre-state fn=ChainStorage::get_block,ChainIndex::get,ChainIndex::max_height_by_blk,BlkFile::open,BlkFile::close
get_block_one!(c02_gbo_0101_h1, 3, [0, 1, 0, 1], 1);
//@ id=C02,C03,C17,C10 tier=quick name=c02_gbo_0101_h2 timeout=1200 role=get_block_one bound=heights-0..3-interleaved-in-files-0,1,0,1,queried-height-2,offsets-full-u64,any-open/closed-pre-state fn=ChainStorage::get_block,ChainIndex::get,ChainIndex::max_height_by_blk,BlkFile::open,BlkFile::close
get_block_one!(c02_gbo_0101_h2, 3, [0, 1, 0, 1], 2);
//@ id=C02,C03,C17,C10 tier=quick name=c02_gbo_0101_h3 timeout=1200 role=get_block_one bound=heights-0..3-interleaved-in-files-0,1,0,1,queried-height-3,offsets-full-u64,any-open/closed-pre-state fn=ChainStorage::get_block,ChainIndex::get,ChainIndex::max_height_by_blk,BlkFile::open,BlkFile::close
get_block_one!(c02_gbo_0101_h3, 3, [0, 1, 0, 1], 3);
//@ id=C02,C03,C17,C10 tier=thorough name=c02_gbo_0101_h4 timeout=1200 role=get_block_one bound=heights-0..3-interleaved-in-files-0,1,0,1,queried-height-4,offsets-full-u64,any-open/closed-pre-state fn=ChainStorage::get_block,ChainIndex::get,ChainIndex::max_height_by_blk,BlkFile::open,BlkFile::close
get_block_one!(c02_gbo_0101_h4, 3, [0, 1, 0, 1], 4);
//@ id=C02,C03,C17,C10 tier=quick name=c02_gbo_12_h0 timeout=1200 role=get_block_one bound=heights-0,1-in-files-1,missing,queried-height-0,offsets-full-u64,any-open/closed-pre-state fn=ChainStorage::get_block,ChainIndex::get,ChainIndex::max_height_by_blk,BlkFile::open,BlkFile::close
get_block_one!(c02_gbo_12_h0, 1, [1, 2, 0, 0], 0);
//@ id=C02,C03,C17,C10 tier=quick name=c02_gbo_12_h1 timeout=1200 role=get_block_one bound=heights-0,1-in-files-1,missing,queried-height-1,offsets-full-u64,any-open/closed-pre-state fn=ChainStorage::get_block,ChainIndex::get,ChainIndex::max_height_by_blk,BlkFile::open,BlkFile::close
get_block_one!(c02_gbo_12_h1, 1, [1, 2, 0, 0], 1);
//@ id=C02,C03,C17,C10 tier=thorough name=c02_gbo_0011_h0 timeout=1200 role=get_block_one bound=heights-0..3-disjoint-spans-files-0,0,1,1,queried-height-0,offsets-full-u64,any-open/closed-pre-state fn=ChainStorage::get_block,ChainIndex::get,ChainIndex::max_height_by_blk,BlkFile::open,BlkFile::close
get_block_one!(c02_gbo_0011_h0, 3, [0, 0, 1, 1], 0);
//@ id=C02,C03,C17,C10 tier=thorough name=c02_gbo_0011_h1 timeout=1200 role=get_block_one bound=heights-0..3-disjoint-spans-files-0,0,1,1,queried-height-1,offsets-full-u64,any-open/closed-pre-state fn=ChainStorage::get_block,ChainIndex::get,ChainIndex::max_height_by_blk,BlkFile::open,BlkFile::close
get_block_one!(c02_gbo_0011_h1, 3, [0, 0, 1, 1], 1);
//@ id=C02,C03,C17,C10 tier=thorough name=c02_gbo_0011_h2 timeout=1200 role=get_block_one bound=heights-0..3-disjoint-spans-files-0,0,1,1,queried-height-2,offsets-full-u64,any-open/closed-pre-state fn=ChainStorage::get_block,ChainIndex::get,ChainIndex::max_height_by_blk,BlkFile::open,BlkFile::close
get_block_one!(c02_gbo_0011_h2, 3, [0, 0, 1, 1], 2);
//@ id=C02,C03,C17,C10 tier=thorough name=c02_gbo_0011_h3 timeout=1200 role=get_block_one bound=heights-0..3-disjoint-spans-files-0,0,1,1,queried-height-3,offsets-full-u64,any-open/closed-pre-state fn=ChainStorage::get_block,ChainIndex::get,ChainIndex::max_height_by_blk,BlkFile::open,BlkFile::close
get_block_one!(c02_gbo_0011_h3, 3, [0, 0, 1, 1], 3);
//@ id=C02,C03,C17,C10 tier=thorough name=c02_gbo_1001_h0 timeout=1200 role=get_block_one bound=heights-0..3-in-files-1,0,0,1(file-1-needed-again-later),queried-height-0,offsets-full-u64,any-open/closed-pre-state fn=ChainStorage::get_block,ChainIndex::get,ChainIndex::max_height_by_blk,BlkFile::open,BlkFile::close
get_block_one!(c02_gbo_1001_h0, 3, [1, 0, 0, 1], 0);
//@ id=C02,C03,C17,C10 tier=thorough name=c02_gbo_1001_h1 timeout=1200 role=get_block_one bound=heights-0..3-in-files-1,0,0,1(file-1-needed-again-later),queried-height-1,offsets-full-u64,any-open/closed-pre-state fn=ChainStorage::get_block,ChainIndex::get,ChainIndex::max_height_by_blk,BlkFile::open,BlkFile::close
get_block_one!(c02_gbo_1001_h1, 3, [1, 0, 0, 1], 1);
//@ id=C02,C03,C17,C10 tier=thorough name=c02_gbo_1001_h3 timeout=1200 role=get_block_one bound=heights-0..3-in-files-1,0,0,1(file-1-needed-again-later),queried-height-3,offsets-full-u64,any-open/closed-pre-state fn=ChainStorage::get_block,ChainIndex::get,ChainIndex::max_height_by_blk,BlkFile::open,BlkFile::close
get_block_one!(c02_gbo_1001_h3, 3, [1, 0, 0, 1], 3);

// ---- C17 two consecutive steps: state carried from one get_block to the next (e.g. caches) --------------
// Layout: heights 0..3 in files 0,1,0,1. After get_block(h1) and get_block(h2) (both concrete, ascending),
// every file whose highest block has been delivered is closed and every other touched file is open.
macro_rules! two_steps {
    ($name:ident, [$f0:expr, $f1:expr, $f2:expr, $f3:expr], $h1:expr, $h2:expr) => {
        #[kani::proof]
        #[kani::unwind(8)]
        #[kani::stub(crate::blockchain::proto::script::eval_from_bytes, crate::blockchain::parser::reader::vk_reader_c01::stub_eval)]
        #[kani::stub(<bitcoin::hashes::sha256::HashEngine as bitcoin::hashes::HashEngine>::input, crate::verif_models::ghost::stub_engine_input)]
        #[kani::stub(<bitcoin::hashes::sha256d::Hash as bitcoin::hashes::Hash>::from_engine, crate::verif_models::ghost::stub_sha256d_fin)]
        #[kani::stub(<bitcoin::hashes::hash160::Hash as bitcoin::hashes::Hash>::from_engine, crate::verif_models::ghost::stub_hash160_fin)]
        fn $name() {
            const FILE: [usize; 4] = [$f0, $f1, $f2, $f3];
            let off: [u64; 4] = kani::any();
            let mut bi = ix::new_map();
            let mut mhb: HashMap<u64, u64> = ix::new_map();
            let mut last = [-1i64; 2];
            let mut h = 0usize;
            while h < 4 {
                bi.insert(h as u64, ix::mk_record([0; 32], h as u64, FILE[h] as u64, off[h]));
                last[FILE[h]] = h as i64;
                h += 1;
            }
            mhb.insert(0, last[0] as u64);
            mhb.insert(1, last[1] as u64);
            let mut files: HashMap<u64, BlkFile> = HashMap::new();
            files.insert(0, bx::mk_blkfile(0));
            files.insert(1, bx::mk_blkfile(1));
            let mut cs = mk_cs(ix::mk_index(3, bi, mhb), files, ix::mk_coin(0, None), false);
            unsafe { hooks::RB_STUB_ON.v = true; }
            let r1 = cs.get_block($h1);
            let r2 = cs.get_block($h2);
            assert!(matches!(r1, Ok(Some(_))) && matches!(r2, Ok(Some(_))), "C03:indexed_block_is_delivered");
            unsafe {
                assert!(hooks::RB_CALLS.v == 2 && hooks::RB_OFFSET.v[0] == off[$h1] && hooks::RB_OFFSET.v[1] == off[$h2], "C03:block_read_at_the_offset_its_record_names");
                assert!(hooks::RB_FILE.v[0] == FILE[$h1] as u64 && hooks::RB_FILE.v[1] == FILE[$h2] as u64, "C03:block_read_from_the_file_its_record_names");
            }
            let mut k = 0usize;
            while k < 2 {
                let touched = FILE[$h1] == k || FILE[$h2] == k;
                let open = bx::is_open(cs.blk_files.get(&(k as u64)).unwrap());
                let last_touch: i64 = if FILE[$h2] == k { $h2 } else { $h1 };
                if touched {
                    assert!(open == (last_touch < last[k]), "C17:file_closed_iff_its_highest_block_was_delivered");
                } else {
                    assert!(!open, "C17:other_files_untouched");
                }
                k += 1;
            }
            kani::cover!(true, "two steps evaluated");
            core::mem::forget(r1);
            core::mem::forget(r2);
            core::mem::forget(cs);
        }
    };
}
// storage_new: ChainStorage::new itself (index through the LevelDB model, the directory scan replaced by
// a stub that finds blk files 0 and 1): whatever the range, every blk file that is present and named by a
// record of a height to be delivered is in the storage's file map under its own number, and the record of
// that height is the indexed one. Catches construction-time pruning/renumbering of the file map.
macro_rules! storage_new {
    ($name:ident, $t:expr, [$f0:expr, $f1:expr, $f2:expr, $f3:expr]) => {
        #[kani::proof]
        #[kani::unwind(8)]
        #[kani::stub(crate::blockchain::parser::blkfile::BlkFile::from_path, crate::blockchain::parser::blkfile::vk_blkfile_c03::stub_from_path)]
        fn $name() {
            const T: usize = $t;
            const FILE: [u8; 4] = [$f0, $f1, $f2, $f3];
            let pos: [u8; 4] = [10, 11, 12, 13];
            let mut i = 0;
            while i <= T { ix::put_rec(i, i as u8, FILE[i], pos[i]); i += 1; }
            ix::set_n_rec(T + 1);
            let start: u64 = kani::any();
            let has_end: bool = kani::any();
            let e: u64 = kani::any();
            kani::assume(!has_end || start < e);
            let options = crate::ParserOptions {
                callback: Box::new(ix::NullCb), coin: ix::mk_coin(0, None), verify: false,
                blockchain_dir: std::path::PathBuf::new(), log_level_filter: log::LevelFilter::Off,
                range: crate::BlockHeightRange { start, end: if has_end { Some(e) } else { None } },
            };
            let cs = match ChainStorage::new(&options) {
                Ok(x) => x,
                Err(er) => { core::mem::forget(er); assert!(false, "C03:storage_builds"); return; }
            };
            let want_max = if has_end && e < T as u64 { e } else { T as u64 };
            let mut h = 0usize;
            while h <= T {
                if (h as u64) >= start && (h as u64) <= want_max && FILE[h] < 2 {
                    match cs.blk_files.get(&(FILE[h] as u64)) {
                        Some(b) => { assert!(hooks::file_id(&b.path) == FILE[h] as u64, "C03:file_number_maps_to_its_own_blk_file"); }
                        None => { assert!(false, "C03:blk_file_of_in_range_record_is_kept"); }
                    }
                    match cs.chain_index.get(h as u64) {
                        Some(r) => { assert!(r.blk_index as u64 == FILE[h] as u64 && r.data_offset as u64 == pos[h] as u64, "C03:in_range_record_names_its_file_and_offset"); }
                        None => { assert!(false, "C02:in_range_height_is_indexed"); }
                    }
                }
                h += 1;
            }
            kani::cover!(start as usize == T, "start at tip");
            kani::cover!(has_end && e == T as u64, "end at tip");
            kani::cover!(!has_end && start == 0, "whole chain");
            kani::cover!(T <= 2 || (start > 0 && has_end && e < T as u64), "inner range"); // start < end rules it out for T <= 2
            core::mem::forget(cs);
            core::mem::forget(options);
        }
    };
}
//@ id=C03,C02 tier=quick name=c03_storage_new_t2 timeout=1500 role=storage_new bound=tip-2,one-block-per-file-0,1,0;dir-scan-stubbed(files-0,1);start/end-full-width-u64 fn=ChainStorage::new,ChainIndex::new,get_block_index
storage_new!(c03_storage_new_t2, 2, [0, 1, 0, 0]);
//@ id=C03,C02 tier=thorough name=c03_storage_new_t3 timeout=3000 role=storage_new bound=tip-3,files-0,0,1,2(file-2-absent);dir-scan-stubbed(files-0,1);start/end-full-width-u64
storage_new!(c03_storage_new_t3, 3, [0, 0, 1, 2]);

//@ id=C17,C03 tier=quick name=c17_steps_0101_1_2 timeout=900 role=two_steps bound=files-0,1,0,1;get_block(1)-then-get_block(2):file-0-must-close-after-a-block-of-file-1 fn=ChainStorage::get_block,BlkFile::open,BlkFile::close
two_steps!(c17_steps_0101_1_2, [0, 1, 0, 1], 1, 2);
//@ id=C17,C03 tier=quick name=c17_steps_0101_2_3 timeout=900 role=two_steps bound=files-0,1,0,1;get_block(2)-then-get_block(3):both-files-closed
two_steps!(c17_steps_0101_2_3, [0, 1, 0, 1], 2, 3);
//@ id=C17,C03 tier=quick name=c17_steps_1001_0_1 timeout=900 role=two_steps bound=files-1,0,0,1;get_block(0)-then-get_block(1):file-1-stays-open
two_steps!(c17_steps_1001_0_1, [1, 0, 0, 1], 0, 1);
//@ id=C17,C03 tier=thorough name=c17_steps_0011_1_2 timeout=900 role=two_steps bound=files-0,0,1,1;get_block(1)-then-get_block(2):file-0-closed,file-1-open
two_steps!(c17_steps_0011_1_2, [0, 0, 1, 1], 1, 2);

// ---- C09 verify_iff ---------------------------------------------------------------------------
// ChainStorage::verify(block, h): Ok iff computed merkle root == header root and (h == 0: header hash
// == coin genesis hash; h > 0: header prev-hash == indexed hash of height h-1).
use crate::verif_models::ghost;
use crate::blockchain::proto::header::BlockHeader;
use crate::blockchain::proto::tx::EvaluatedTx;
use crate::blockchain::proto::varuint::VarUint;
use crate::blockchain::proto::Hashed;
use bitcoin::hashes::{sha256d, Hash};

fn arr_eq(a: &[u8; 32], b: &[u8; 32]) -> bool {
    let mut i = 0;
    while i < 32 { if a[i] != b[i] { return false; } i += 1; }
    true
}

//@ id=C09 tier=quick name=c09_verify_iff timeout=1800 role=verify_iff bound=1-tx-block,heights-0..2,3-record-index,all-hashes-symbolic fn=ChainStorage::verify,Block::verify_merkle_root,Block::compute_merkle_root mem=20
#[kani::proof]
#[kani::unwind(40)]
#[kani::stub(crate::blockchain::proto::script::eval_from_bytes, crate::blockchain::parser::reader::vk_reader_c01::stub_eval)]
#[kani::stub(<bitcoin::hashes::sha256::HashEngine as bitcoin::hashes::HashEngine>::input, crate::verif_models::ghost::stub_engine_input)]
#[kani::stub(<bitcoin::hashes::sha256d::Hash as bitcoin::hashes::Hash>::from_engine, crate::verif_models::ghost::stub_sha256d_fin)]
#[kani::stub(<bitcoin::hashes::hash160::Hash as bitcoin::hashes::Hash>::from_engine, crate::verif_models::ghost::stub_hash160_fin)]
fn c09_verify_iff() {
    unsafe { crate::verif_models::fmtm::CONST_ROWS.v = true; } // error texts are not part of the property
    let txid: [u8; 32] = kani::any();
    let root_field: [u8; 32] = kani::any();
    let prev_field: [u8; 32] = kani::any();
    let hdr_hash: [u8; 32] = kani::any();
    let genesis: [u8; 32] = kani::any();
    let idx_hash: [[u8; 32]; 3] = kani::any();
    let h: u64 = kani::any();
    kani::assume(h <= 2);
    let z = sha256d::Hash::all_zeros();
    let header = BlockHeader { version: 1, prev_hash: sha256d::Hash::from_byte_array(prev_field), merkle_root: sha256d::Hash::from_byte_array(root_field), timestamp: 0, bits: 0, nonce: 0 };
    let tx = EvaluatedTx { version: 1, in_count: VarUint::from(0u8), inputs: Vec::new(), out_count: VarUint::from(0u8), outputs: Vec::new(), locktime: 0 };
    let block = Block { size: 0, header: Hashed { hash: sha256d::Hash::from_byte_array(hdr_hash), value: header }, aux_pow_extension: None, tx_count: VarUint::from(1u8), txs: vec![Hashed { hash: sha256d::Hash::from_byte_array(txid), value: tx }] };
    let mut bi = ix::new_map();
    let mut k = 0;
    while k < 3 { bi.insert(k as u64, ix::mk_record(idx_hash[k], k as u64, 0, 8)); k += 1; }
    let mut coin = ix::mk_coin(0, None);
    coin.genesis_hash = sha256d::Hash::from_byte_array(genesis);
    let cs = mk_cs(ix::mk_index(2, bi, ix::new_map()), HashMap::new(), coin, true);
    let r = cs.verify(&block, h);
    // single-transaction block: the merkle root is the txid itself
    let merkle_ok = arr_eq(&txid, &root_field);
    let link_ok = if h == 0 { arr_eq(&hdr_hash, &genesis) } else { arr_eq(&prev_field, &idx_hash[(h - 1) as usize]) };
    kani::cover!(merkle_ok && link_ok && h == 0, "consistent genesis block");
    kani::cover!(merkle_ok && link_ok && h == 2, "consistent linked block");
    kani::cover!(merkle_ok && !link_ok && h == 1, "prev-hash field changed");
    kani::cover!(!merkle_ok && link_ok, "merkle field or tx data changed");
    match r {
        Ok(()) => { assert!(merkle_ok, "C09:accepted_block_has_matching_merkle_root"); assert!(link_ok, "C09:accepted_block_links_to_indexed_predecessor_or_genesis"); }
        Err(e) => { assert!(!(merkle_ok && link_ok), "C09:consistent_block_is_never_rejected"); core::mem::forget(e); }
    }
    core::mem::forget(block);
    core::mem::forget(cs);
}
