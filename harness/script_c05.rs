//# target: src/blockchain/proto/script/mod.rs
// C05 (Bitcoin/testnet3 type + address), C16 (OP_RETURN payload on the Bitcoin path),
// C14 (totality / long sweeps). Reference classifier written from the property text on raw bytes.

use crate::verif_models::ghost;
use bitcoin::hashes::{hash160, sha256, sha256d};

// pre-drawn answer of the abstracted multisig predicate (cascade harness only)
static mut MS: crate::verif_models::Tg<bool> = crate::verif_models::Tg { v: false, tag: 0x5eedc0de00000049 };
static mut MS_CALLS: crate::verif_models::Tg<usize> = crate::verif_models::Tg { v: 0, tag: 0x5eedc0de0000004a };
fn stub_is_multisig(_s: &Script) -> bool {
    unsafe { MS_CALLS.v += 1; MS.v }
}
/// OP_RETURN payload extraction is cut in the all-contents harnesses (the payload text is C16's claim, checked by
/// c16_btc_* with concrete push opcodes): with a symbolic second byte the payload slice has a symbolic start.
fn stub_opret_data(_b: &[u8]) -> &[u8] { &[] }
fn stub_from_utf8(v: Vec<u8>) -> Result<String, std::string::FromUtf8Error> {
    core::mem::forget(v);
    Ok(String::new())
}
/// The multisig verdict the oracle uses: CBMC mode = the uninterpreted boolean handed to the
/// cascade; native replay = the real predicate (its own correctness is the btc_multisig harness).
#[cfg(not(test))]
fn ms_verdict(_s: &[u8]) -> bool { unsafe { MS.v } }
#[cfg(test)]
fn ms_verdict(s: &[u8]) -> bool { ref_multisig(s) }

fn is_unspendable_first(b: u8) -> bool {
    // return-class: OP_RETURN, OP_RESERVED, OP_VER, OP_RESERVED1/2, everything from 0xba up;
    // illegal: OP_VERIF, OP_VERNOTIF, the 15 disabled opcodes
    b == 0x6a || b == 0x50 || b == 0x62 || b == 0x89 || b == 0x8a || b >= 0xba
        || b == 0x65 || b == 0x66
        || b == 0x7e || b == 0x7f || b == 0x80 || b == 0x81 || b == 0x83 || b == 0x84 || b == 0x85 || b == 0x86
        || b == 0x8d || b == 0x8e || b == 0x95 || b == 0x96 || b == 0x97 || b == 0x98 || b == 0x99
}

/// Reference: bare m-of-n multisig = OP_m <push>{n} OP_n OP_CHECKMULTISIG, 1 <= m <= n <= 16, nothing after.
fn ref_multisig(s: &[u8]) -> bool {
    let n = s.len();
    if n < 3 { return false; }
    if s[0] < 0x51 || s[0] > 0x60 { return false; }
    let m = (s[0] - 0x50) as usize;
    let mut ip = 1;
    let mut keys = 0usize;
    loop {
        if ip >= n { return false; }
        let op = s[ip];
        let (start, len, push) = if op <= 75 { (ip + 1, op as usize, true) }
            else if op == 0x4c { if ip + 2 > n { return false; } (ip + 2, s[ip + 1] as usize, true) }
            else if op == 0x4d { if ip + 3 > n { return false; } (ip + 3, s[ip + 1] as usize | (s[ip + 2] as usize) << 8, true) }
            else if op == 0x4e { if ip + 5 > n { return false; } (ip + 5, s[ip + 1] as usize | (s[ip + 2] as usize) << 8 | (s[ip + 3] as usize) << 16 | (s[ip + 4] as usize) << 24, true) }
            else { (ip + 1, 0, false) };
        if push {
            if start + len > n { return false; }
            keys += 1;
            ip = start + len;
        } else {
            if op < 0x51 || op > 0x60 { return false; }
            let total = (op - 0x50) as usize;
            if total != keys || m > total { return false; }
            return ip + 2 == n && s[ip + 1] == 0xae;
        }
    }
}

#[derive(PartialEq, Clone, Copy)]
enum RefT { OpRet, Unspendable, P2pk, P2pkh, P2sh, P2wpkh, P2wsh, P2tr, Witness, Multi, Unrec }

fn ref_type(s: &[u8], ms: bool) -> RefT {
    let n = s.len();
    if n > 0 && s[0] == 0x6a { return RefT::OpRet; }
    if n > 0 && is_unspendable_first(s[0]) { return RefT::Unspendable; }
    if (n == 35 && s[0] == 33 && s[34] == 0xac) || (n == 67 && s[0] == 65 && s[66] == 0xac) { return RefT::P2pk; }
    if n == 25 && s[0] == 0x76 && s[1] == 0xa9 && s[2] == 0x14 && s[23] == 0x88 && s[24] == 0xac { return RefT::P2pkh; }
    if n == 23 && s[0] == 0xa9 && s[1] == 0x14 && s[22] == 0x87 { return RefT::P2sh; }
    if n >= 4 && n <= 42 && (s[0] == 0 || (s[0] >= 0x51 && s[0] <= 0x60)) && s[1] >= 2 && s[1] <= 40 && s[1] as usize == n - 2 {
        let v = if s[0] == 0 { 0 } else { s[0] - 0x50 };
        if v == 0 && n == 22 { return RefT::P2wpkh; }
        if v == 0 && n == 34 { return RefT::P2wsh; }
        if v == 1 && n == 34 { return RefT::P2tr; }
        return RefT::Witness;
    }
    if ms { return RefT::Multi; }
    RefT::Unrec
}

fn check_bitcoin(s: &[u8], ver: u8, ms: bool) {
    let r = eval_from_bytes(s, ver);
    let t = ref_type(s, ms);
    let n = s.len();
    let (pkh, sh, hrp) = if ver == 0x00 { (0x00u8, 0x05u8, "bc") } else { (0x6fu8, 0xc4u8, "tb") };
    match t {
        RefT::OpRet => {
            assert!(matches!(r.pattern, ScriptPattern::OpReturn(_)), "C05:type_opreturn");
            assert!(r.address.is_none(), "C05:no_address_for_opreturn");
            assert!(ghost::n_encoder_calls(0) == 0, "C05:no_encoder_call");
        }
        RefT::Unspendable => {
            assert!(r.pattern == ScriptPattern::Unspendable, "C05:type_unspendable");
            assert!(r.address.is_none(), "C05:no_address_for_unspendable");
            assert!(ghost::n_encoder_calls(0) == 0, "C05:no_encoder_call");
        }
        RefT::P2pk => {
            assert!(r.pattern == ScriptPattern::Pay2PublicKey, "C05:type_p2pk");
            let klen = n - 2;
            let h = ghost::hash160_call(0, &s[1..1 + klen]);
            assert!(h.is_some(), "C05:p2pk_hashes_the_pushed_key");
            let h = h.unwrap_or([0; 20]);
            let mut pay = [0u8; 21];
            pay[0] = pkh;
            let mut i = 0;
            while i < 20 { pay[1 + i] = h[i]; i += 1; }
            assert!(ghost::b58ck_payload_is(&pay), "C05:p2pk_address_payload_is_prefix_plus_hash160_of_key");
            assert!(ghost::b58ck_addr_ok(r.address.as_deref(), &pay), "C05:address_text");
        }
        RefT::P2pkh | RefT::P2sh => {
            let mut pay = [0u8; 21];
            let from = if t == RefT::P2pkh {
                assert!(r.pattern == ScriptPattern::Pay2PublicKeyHash, "C05:type_p2pkh");
                pay[0] = pkh;
                3
            } else {
                assert!(r.pattern == ScriptPattern::Pay2ScriptHash, "C05:type_p2sh");
                pay[0] = sh;
                2
            };
            let mut i = 0;
            while i < 20 { pay[1 + i] = s[from + i]; i += 1; }
            assert!(ghost::b58ck_payload_is(&pay), "C05:address_payload_is_network_prefix_plus_embedded_hash");
            assert!(ghost::b58ck_addr_ok(r.address.as_deref(), &pay), "C05:address_text");
        }
        RefT::P2wpkh | RefT::P2wsh | RefT::P2tr | RefT::Witness => {
            let want = match t { RefT::P2wpkh => ScriptPattern::Pay2WitnessPublicKeyHash, RefT::P2wsh => ScriptPattern::Pay2WitnessScriptHash, RefT::P2tr => ScriptPattern::Pay2Taproot, _ => ScriptPattern::WitnessProgram };
            assert!(r.pattern == want, "C05:type_witness_program");
            let v = if s[0] == 0 { 0 } else { s[0] - 0x50 };
            // version 0 programs are only encodable with 20 or 32 bytes (BIP141)
            let encodable = v != 0 || n == 22 || n == 34;
            if encodable {
                assert!(ghost::bech_payload_is(hrp, v, &s[2..]), "C05:witness_address_encodes_hrp_version_program");
                assert!(ghost::bech_addr_ok(r.address.as_deref(), hrp, v, &s[2..]), "C05:address_text");
            } else {
                assert!(r.address.is_none(), "C05:no_address_for_unencodable_witness_program");
                assert!(ghost::n_encoder_calls(0) == 0, "C05:no_encoder_call");
            }
        }
        RefT::Multi => {
            assert!(r.pattern == ScriptPattern::Pay2MultiSig, "C05:type_multisig");
            assert!(r.address.is_none(), "C05:no_address_for_multisig");
            assert!(ghost::n_encoder_calls(0) == 0, "C05:no_encoder_call");
        }
        RefT::Unrec => {
            assert!(r.pattern == ScriptPattern::NotRecognised, "C05:type_unrecognised");
            assert!(r.address.is_none(), "C05:no_address_for_unrecognised");
            assert!(ghost::n_encoder_calls(0) == 0, "C05:no_encoder_call");
        }
    }
    core::mem::forget(r);
}

// ---- cascade: all contents of a script of concrete length, multisig predicate abstracted -----
macro_rules! cascade {
    ($name:ident, $len:expr, $ver:expr, $unw:expr $(, $cov:expr, $covname:expr)*) => {
        #[kani::proof]
        #[kani::unwind($unw)]
        #[kani::stub(bitcoin::base58::encode_check_to_fmt, ghost::stub_b58ck_fmt)]
        #[kani::stub(bitcoin::bech32::segwit::encode_lower_to_fmt_unchecked, ghost::stub_bech)]
        #[kani::stub(<bitcoin::hashes::sha256::HashEngine as bitcoin::hashes::HashEngine>::input, ghost::stub_engine_input)]
        #[kani::stub(<bitcoin::hashes::hash160::Hash as bitcoin::hashes::Hash>::from_engine, ghost::stub_hash160_fin)]
        #[kani::stub(<bitcoin::hashes::sha256d::Hash as bitcoin::hashes::Hash>::from_engine, ghost::stub_sha256d_fin)]
        #[kani::stub(crate::blockchain::proto::script::is_multisig, stub_is_multisig)]
        #[kani::stub(bitcoin::Script::is_multisig, stub_is_multisig)]
        #[kani::stub(std::string::String::from_utf8, stub_from_utf8)]
        #[kani::stub(crate::blockchain::proto::script::op_return_data, stub_opret_data)]
        fn $name() {
            ghost::init(kani::any());
            let s: [u8; $len] = kani::any();
            let ms: bool = kani::any();
            unsafe { MS.v = ms; }
            let verdict = ms_verdict(&s);
            let t = ref_type(&s, verdict);
            $( kani::cover!(t == $cov, $covname); )*
            kani::cover!(t == RefT::Unrec, "unrecognised script");
            check_bitcoin(&s, $ver, verdict);
        }
    };
}

//@ id=C05,C14 tier=quick name=c05_cas_0_btc timeout=600 role=btc_cascade bound=empty-script,bitcoin fn=eval_from_bytes,eval_from_bytes_bitcoin,is_provable_unspendable,Address::from_script
cascade!(c05_cas_0_btc, 0, 0x00, 40);
//@ id=C05,C14 tier=quick name=c05_cas_1_btc timeout=900 role=btc_cascade bound=all-1-byte-scripts(all-256-leading-opcodes),bitcoin
cascade!(c05_cas_1_btc, 1, 0x00, 40, RefT::OpRet, "OP_RETURN", RefT::Unspendable, "unspendable first opcode");
//@ id=C05,C14 tier=quick name=c05_cas_4_btc timeout=1200 role=btc_cascade bound=all-4-byte-scripts,bitcoin
cascade!(c05_cas_4_btc, 4, 0x00, 40, RefT::Witness, "witness program of 2 bytes", RefT::Multi, "multisig verdict");
//@ id=C05,C14 tier=quick name=c05_cas_6_tn timeout=1200 role=btc_cascade bound=all-6-byte-scripts,testnet3
cascade!(c05_cas_6_tn, 6, 0x6f, 40, RefT::Witness, "witness program of 4 bytes");
//@ id=C05,C14 tier=quick name=c05_cas_22_btc timeout=1500 role=btc_cascade bound=all-22-byte-scripts,bitcoin
cascade!(c05_cas_22_btc, 22, 0x00, 40, RefT::P2wpkh, "P2WPKH", RefT::Witness, "other 20-byte witness program");
//@ id=C05,C14 tier=quick name=c05_cas_23_tn timeout=1500 role=btc_cascade bound=all-23-byte-scripts,testnet3
cascade!(c05_cas_23_tn, 23, 0x6f, 40, RefT::P2sh, "P2SH");
//@ id=C05,C14 tier=quick name=c05_cas_25_btc timeout=1500 role=btc_cascade bound=all-25-byte-scripts,bitcoin
cascade!(c05_cas_25_btc, 25, 0x00, 40, RefT::P2pkh, "P2PKH");
//@ id=C05,C14 tier=quick name=c05_cas_34_btc timeout=1800 role=btc_cascade bound=all-34-byte-scripts,bitcoin
cascade!(c05_cas_34_btc, 34, 0x00, 40, RefT::P2wsh, "P2WSH", RefT::P2tr, "P2TR", RefT::Witness, "32-byte program of version 2..16");
//@ id=C05,C14 tier=quick name=c05_cas_35_tn timeout=1800 role=btc_cascade bound=all-35-byte-scripts,testnet3
cascade!(c05_cas_35_tn, 35, 0x6f, 40, RefT::P2pk, "P2PK compressed key");
//@ id=C05,C14 tier=thorough name=c05_cas_67_btc timeout=3000 role=btc_cascade bound=all-67-byte-scripts,bitcoin mem=20
cascade!(c05_cas_67_btc, 67, 0x00, 70, RefT::P2pk, "P2PK uncompressed key");
//@ id=C05,C14 tier=thorough name=c05_cas_42_btc timeout=3000 role=btc_cascade bound=all-42-byte-scripts,bitcoin mem=20
cascade!(c05_cas_42_btc, 42, 0x00, 46, RefT::Witness, "40-byte witness program");
//@ id=C05,C14 tier=thorough name=c05_cas_25_tn timeout=2400 role=btc_cascade bound=all-25-byte-scripts,testnet3
cascade!(c05_cas_25_tn, 25, 0x6f, 40, RefT::P2pkh, "P2PKH");
//@ id=C05,C14 tier=thorough name=c05_cas_23_btc timeout=2400 role=btc_cascade bound=all-23-byte-scripts,bitcoin
cascade!(c05_cas_23_btc, 23, 0x00, 40, RefT::P2sh, "P2SH");
//@ id=C05,C14 tier=thorough name=c05_cas_22_tn timeout=2400 role=btc_cascade bound=all-22-byte-scripts,testnet3
cascade!(c05_cas_22_tn, 22, 0x6f, 40, RefT::P2wpkh, "P2WPKH");
//@ id=C05,C14 tier=thorough name=c05_cas_34_tn timeout=2400 role=btc_cascade bound=all-34-byte-scripts,testnet3
cascade!(c05_cas_34_tn, 34, 0x6f, 40, RefT::P2tr, "P2TR");
//@ id=C05,C14 tier=thorough name=c05_cas_2_btc timeout=1200 role=btc_cascade bound=all-2-byte-scripts,bitcoin
cascade!(c05_cas_2_btc, 2, 0x00, 40);
//@ id=C05,C14 tier=thorough name=c05_cas_3_tn timeout=1200 role=btc_cascade bound=all-3-byte-scripts,testnet3
cascade!(c05_cas_3_tn, 3, 0x6f, 40);
//@ id=C05,C14 tier=thorough name=c05_cas_5_btc timeout=1200 role=btc_cascade bound=all-5-byte-scripts,bitcoin
cascade!(c05_cas_5_btc, 5, 0x00, 40);
//@ id=C05,C14 tier=thorough name=c05_cas_24_btc timeout=2400 role=btc_cascade bound=all-24-byte-scripts(P2SH/P2PKH-off-by-one-lengths),bitcoin
cascade!(c05_cas_24_btc, 24, 0x00, 40);
//@ id=C05,C14 tier=thorough name=c05_cas_26_btc timeout=2400 role=btc_cascade bound=all-26-byte-scripts(P2PKH-extended-by-one),bitcoin
cascade!(c05_cas_26_btc, 26, 0x00, 40);
//@ id=C05,C14 tier=thorough name=c05_cas_36_btc timeout=2400 role=btc_cascade bound=all-36-byte-scripts(P2PK-extended-by-one),bitcoin
cascade!(c05_cas_36_btc, 36, 0x00, 40);

// ---- dispatch: version byte selects the evaluator --------------------------------------------
fn mark_btc(_b: &[u8], _v: u8) -> EvaluatedScript { EvaluatedScript::new(None, ScriptPattern::Pay2Taproot) }
fn mark_custom(_b: &[u8], _v: u8) -> EvaluatedScript { EvaluatedScript::new(None, ScriptPattern::Pay2MultiSig) }
//@ id=C05,C06 tier=quick name=c05_dispatch timeout=600 role=dispatch bound=all-256-version-bytes fn=eval_from_bytes
#[kani::proof]
#[kani::unwind(8)]
#[kani::stub(crate::blockchain::proto::script::eval_from_bytes_bitcoin, mark_btc)]
#[kani::stub(crate::blockchain::proto::script::custom::eval_from_bytes_custom, mark_custom)]
fn c05_dispatch() {
    let v: u8 = kani::any();
    let b = [0x51u8];
    let r = eval_from_bytes(&b, v);
    let want = if v == 0x00 || v == 0x6f { eval_from_bytes_bitcoin(&b, v) } else { eval_from_bytes_custom(&b, v) };
    assert!(r.pattern == want.pattern && r.address == want.address, "C05:version_byte_selects_the_evaluator");
    kani::cover!(v == 0x6f, "testnet3");
    kani::cover!(v == 0x30, "fork coin");
    core::mem::forget(r);
    core::mem::forget(want);
}

// ---- multisig with the real predicate: [m] k x (01 xx) [n] [c] ---------------------------------
// The three opcode bytes are concrete per instance (a symbolic opcode makes rust-bitcoin's instruction
// iterator symbolic: >12 GiB); key bytes are symbolic.
macro_rules! btc_multisig {
    ($name:ident, $k:expr, $m:expr, $n:expr, $c:expr) => {
        #[kani::proof]
        #[kani::unwind(40)]
        #[kani::stub(bitcoin::base58::encode_check_to_fmt, ghost::stub_b58ck_fmt)]
        #[kani::stub(bitcoin::bech32::segwit::encode_lower_to_fmt_unchecked, ghost::stub_bech)]
        #[kani::stub(<bitcoin::hashes::sha256::HashEngine as bitcoin::hashes::HashEngine>::input, ghost::stub_engine_input)]
        #[kani::stub(<bitcoin::hashes::hash160::Hash as bitcoin::hashes::Hash>::from_engine, ghost::stub_hash160_fin)]
        #[kani::stub(<bitcoin::hashes::sha256d::Hash as bitcoin::hashes::Hash>::from_engine, ghost::stub_sha256d_fin)]
        #[kani::stub(std::string::String::from_utf8, stub_from_utf8)]
        fn $name() {
            ghost::init(kani::any());
            const L: usize = 3 + 2 * $k;
            let mut s = [0u8; L];
            s[0] = $m;
            let mut i = 0;
            while i < $k { s[1 + 2 * i] = 0x01; s[2 + 2 * i] = kani::any(); i += 1; }
            s[L - 2] = $n;
            s[L - 1] = $c;
            let want = ref_multisig(&s);
            kani::cover!(true, "evaluated");
            check_bitcoin(&s, 0x00, want);
        }
    };
}
//@ id=C05,C14 tier=quick name=c05_ms_1of1 timeout=900 role=btc_multisig bound=1-key(s),m=0x51,n=0x51,c=0xae:well-formed-1-of-1 fn=eval_from_bytes_bitcoin,is_multisig
btc_multisig!(c05_ms_1of1, 1, 0x51, 0x51, 0xae);
//@ id=C05,C14 tier=quick name=c05_ms_2of3 timeout=900 role=btc_multisig bound=3-key(s),m=0x52,n=0x53,c=0xae:well-formed-2-of-3 fn=eval_from_bytes_bitcoin,is_multisig
btc_multisig!(c05_ms_2of3, 3, 0x52, 0x53, 0xae);
//@ id=C05,C14 tier=quick name=c05_ms_m_gt_n timeout=900 role=btc_multisig bound=1-key(s),m=0x52,n=0x51,c=0xae:m-greater-than-n fn=eval_from_bytes_bitcoin,is_multisig
btc_multisig!(c05_ms_m_gt_n, 1, 0x52, 0x51, 0xae);
//@ id=C05,C14 tier=quick name=c05_ms_wrong_n timeout=900 role=btc_multisig bound=3-key(s),m=0x52,n=0x52,c=0xae:n-does-not-match-the-key-count fn=eval_from_bytes_bitcoin,is_multisig
btc_multisig!(c05_ms_wrong_n, 3, 0x52, 0x52, 0xae);
//@ id=C05,C14 tier=quick name=c05_ms_nonnum_n timeout=900 role=btc_multisig bound=1-key(s),m=0x51,n=0x76,c=0xae:non-number-opcode-in-the-n-slot(OP_DUP) fn=eval_from_bytes_bitcoin,is_multisig
btc_multisig!(c05_ms_nonnum_n, 1, 0x51, 0x76, 0xae);
//@ id=C05,C14 tier=quick name=c05_ms_wrong_c timeout=900 role=btc_multisig bound=1-key(s),m=0x51,n=0x51,c=0xac:CHECKSIG-instead-of-CHECKMULTISIG fn=eval_from_bytes_bitcoin,is_multisig
btc_multisig!(c05_ms_wrong_c, 1, 0x51, 0x51, 0xac);
//@ id=C05,C14 tier=quick name=c05_ms_nonnum_m timeout=900 role=btc_multisig bound=1-key(s),m=0x76,n=0x51,c=0xae:non-number-opcode-in-the-m-slot fn=eval_from_bytes_bitcoin,is_multisig
btc_multisig!(c05_ms_nonnum_m, 1, 0x76, 0x51, 0xae);
//@ id=C05,C14 tier=quick name=c05_ms_neg_m timeout=900 role=btc_multisig bound=1-key(s),m=0x4f,n=0x51,c=0xae:OP_1NEGATE-as-m fn=eval_from_bytes_bitcoin,is_multisig
btc_multisig!(c05_ms_neg_m, 1, 0x4f, 0x51, 0xae);
//@ id=C05,C14 tier=thorough name=c05_ms_0keys timeout=900 role=btc_multisig bound=0-key(s),m=0x51,n=0x51,c=0xae:no-keys-n=1 fn=eval_from_bytes_bitcoin,is_multisig
btc_multisig!(c05_ms_0keys, 0, 0x51, 0x51, 0xae);
//@ id=C05,C14 tier=thorough name=c05_ms_nop_n timeout=900 role=btc_multisig bound=3-key(s),m=0x52,n=0x61,c=0xae:OP_NOP-in-the-n-slot fn=eval_from_bytes_bitcoin,is_multisig
btc_multisig!(c05_ms_nop_n, 3, 0x52, 0x61, 0xae);
//@ id=C05,C14 tier=thorough name=c05_ms_16of16 timeout=900 role=btc_multisig bound=16-key(s),m=0x60,n=0x60,c=0xae:16-of-16 fn=eval_from_bytes_bitcoin,is_multisig
btc_multisig!(c05_ms_16of16, 16, 0x60, 0x60, 0xae);
//@ id=C05,C14 tier=thorough name=c05_ms_cmsverify timeout=900 role=btc_multisig bound=3-key(s),m=0x52,n=0x53,c=0xaf:CHECKMULTISIGVERIFY fn=eval_from_bytes_bitcoin,is_multisig
btc_multisig!(c05_ms_cmsverify, 3, 0x52, 0x53, 0xaf);
//@ id=C05,C14 tier=thorough name=c05_ms_3of3 timeout=900 role=btc_multisig bound=3-key(s),m=0x53,n=0x53,c=0xae:3-of-3 fn=eval_from_bytes_bitcoin,is_multisig
btc_multisig!(c05_ms_3of3, 3, 0x53, 0x53, 0xae);

// ---- C16: OP_RETURN payload on the Bitcoin path ------------------------------------------------
/// RFC 3629 validity of a whole byte string
fn utf8_valid(b: &[u8]) -> bool {
    let n = b.len();
    let mut i = 0;
    while i < n {
        let c = b[i];
        let need = if c < 0x80 { 0 } else if c >= 0xc2 && c <= 0xdf { 1 } else if c >= 0xe0 && c <= 0xef { 2 } else if c >= 0xf0 && c <= 0xf4 { 3 } else { return false; };
        if i + need >= n && need > 0 { return false; }
        if need >= 1 {
            let c1 = b[i + 1];
            let (lo, hi) = if c == 0xe0 { (0xa0, 0xbf) } else if c == 0xed { (0x80, 0x9f) } else if c == 0xf0 { (0x90, 0xbf) } else if c == 0xf4 { (0x80, 0x8f) } else { (0x80, 0xbf) };
            if c1 < lo || c1 > hi { return false; }
        }
        if need >= 2 { let c2 = b[i + 2]; if c2 < 0x80 || c2 > 0xbf { return false; } }
        if need >= 3 { let c3 = b[i + 3]; if c3 < 0x80 || c3 > 0xbf { return false; } }
        i += 1 + need;
    }
    true
}

macro_rules! btc_payload {
    ($name:ident, $unw:expr, [$($pfx:expr),*], $plen:expr, $ver:expr) => {
        #[kani::proof]
        #[kani::unwind($unw)]
        #[kani::stub(<bitcoin::hashes::sha256::HashEngine as bitcoin::hashes::HashEngine>::input, ghost::stub_engine_input)]
        #[kani::stub(<bitcoin::hashes::hash160::Hash as bitcoin::hashes::Hash>::from_engine, ghost::stub_hash160_fin)]
        #[kani::stub(<bitcoin::hashes::sha256d::Hash as bitcoin::hashes::Hash>::from_engine, ghost::stub_sha256d_fin)]
        fn $name() {
            let pfx: &[u8] = &[$($pfx),*];
            const P: usize = $plen;
            let pay: [u8; P] = kani::any();
            let mut s = [0u8; 8 + P];
            let mut n = 0;
            while n < pfx.len() { s[n] = pfx[n]; n += 1; }
            let mut i = 0;
            while i < P { s[n] = pay[i]; n += 1; i += 1; }
            // network concrete per instance: a symbolic version byte makes CBMC explore the fork-coin
            // evaluator as well (real from_utf8_lossy): no result in 15 min even for an empty payload
            let ver: u8 = $ver;
            let r = eval_from_bytes(&s[..n], ver);
            let valid = utf8_valid(&pay);
            kani::cover!(P == 0 || valid, "valid UTF-8 payload");
            kani::cover!(P == 0 || !valid, "invalid UTF-8 payload (or empty)");
            kani::cover!(P < 2 || (valid && pay[0] >= 0xc2), "multi-byte sequence");
            assert!(r.address.is_none(), "C16:no_address_for_opreturn");
            match r.pattern {
                ScriptPattern::OpReturn(ref text) => {
                    if valid {
                        assert!(text.len() == P, "C16:btc_payload_is_exactly_the_pushed_bytes");
                        let tb = text.as_bytes();
                        let mut i = 0;
                        while i < P { assert!(tb[i] == pay[i], "C16:btc_payload_is_exactly_the_pushed_bytes"); i += 1; }
                    } else {
                        assert!(text.is_empty(), "C16:btc_invalid_utf8_prints_nothing");
                    }
                }
                _ => { assert!(false, "C16:type_opreturn"); }
            }
            core::mem::forget(r);
        }
    };
}
//@ id=C16,C05 tier=quick name=c16_btc_direct_3 timeout=900 role=btc_payload bound=OP_RETURN+direct-push,3-byte-payload fn=eval_from_bytes_bitcoin,op_return_data,String::from_utf8
btc_payload!(c16_btc_direct_3, 40, [0x6a, 0x03], 3, 0x00);
//@ id=C16,C05 tier=quick name=c16_btc_pd1_2 timeout=900 role=btc_payload bound=OP_RETURN+PUSHDATA1,2-byte-payload
btc_payload!(c16_btc_pd1_2, 40, [0x6a, 0x4c, 0x02], 2, 0x6f);
//@ id=C16,C05 tier=quick name=c16_btc_pd2_3 timeout=900 role=btc_payload bound=OP_RETURN+PUSHDATA2,3-byte-payload
btc_payload!(c16_btc_pd2_3, 40, [0x6a, 0x4d, 0x03, 0x00], 3, 0x00);
//@ id=C16,C05 tier=quick name=c16_btc_pd4_1 timeout=900 role=btc_payload bound=OP_RETURN+PUSHDATA4,1-byte-payload
btc_payload!(c16_btc_pd4_1, 40, [0x6a, 0x4e, 0x01, 0x00, 0x00, 0x00], 1, 0x00);
//@ id=C16,C05 tier=quick name=c16_btc_direct_0 timeout=900 role=btc_payload bound=OP_RETURN+OP_0(empty-payload)
btc_payload!(c16_btc_direct_0, 40, [0x6a, 0x00], 0, 0x00);
//@ id=C16,C05 tier=quick name=c16_btc_pd1_0 timeout=900 role=btc_payload bound=OP_RETURN+PUSHDATA1-0(empty-payload)
btc_payload!(c16_btc_pd1_0, 40, [0x6a, 0x4c, 0x00], 0, 0x00);
//@ id=C16,C05 tier=thorough name=c16_btc_direct_4 timeout=1800 role=btc_payload bound=OP_RETURN+direct-push,4-byte-payload(4-byte-sequences)
btc_payload!(c16_btc_direct_4, 40, [0x6a, 0x04], 4, 0x00);
//@ id=C16,C05 tier=thorough name=c16_btc_pd1_4 timeout=1800 role=btc_payload bound=OP_RETURN+PUSHDATA1,4-byte-payload
btc_payload!(c16_btc_pd1_4, 40, [0x6a, 0x4c, 0x04], 4, 0x00);
//@ id=C16,C05 tier=thorough name=c16_btc_direct_1 timeout=900 role=btc_payload bound=OP_RETURN+direct-push,1-byte
btc_payload!(c16_btc_direct_1, 40, [0x6a, 0x01], 1, 0x6f);

// ---- C14 long sweeps: per-token counters swept across their u8 boundary ------------------------
// [head] k x (01 xx) [n] [c] on the Bitcoin path (real is_multisig walker), payload bytes symbolic.
macro_rules! long_sweep_btc {
    ($name:ident, $k:expr, $head:expr, $n:expr, $c:expr, $unw:expr) => {
        #[kani::proof]
        #[kani::unwind($unw)]
        #[kani::stub(bitcoin::base58::encode_check_to_fmt, ghost::stub_b58ck_fmt)]
        #[kani::stub(bitcoin::bech32::segwit::encode_lower_to_fmt_unchecked, ghost::stub_bech)]
        #[kani::stub(<bitcoin::hashes::sha256::HashEngine as bitcoin::hashes::HashEngine>::input, ghost::stub_engine_input)]
        #[kani::stub(<bitcoin::hashes::hash160::Hash as bitcoin::hashes::Hash>::from_engine, ghost::stub_hash160_fin)]
        #[kani::stub(<bitcoin::hashes::sha256d::Hash as bitcoin::hashes::Hash>::from_engine, ghost::stub_sha256d_fin)]
        #[kani::stub(std::string::String::from_utf8, stub_from_utf8)]
        fn $name() {
            const L: usize = 3 + 2 * $k;
            let mut s = [0u8; L];
            s[0] = $head;
            let mut i = 0;
            while i < $k { s[1 + 2 * i] = 0x01; s[2 + 2 * i] = kani::any(); i += 1; }
            s[L - 2] = $n;
            s[L - 1] = $c;
            let r = eval_from_bytes(&s, 0x00);
            // reference: more than 16 keys can never be an m-of-n multisig
            let want_multi = ref_multisig(&s);
            assert!((r.pattern == ScriptPattern::Pay2MultiSig) == want_multi, "C05:type_multisig_iff_wellformed_m_of_n");
            assert!(r.address.is_none(), "C14:no_address_for_long_token_soup");
            kani::cover!(true, "long script evaluated without panic");
            core::mem::forget(r);
        }
    };
}
//@ id=C14,C05 tier=quick name=c14_sweep_btc_16 timeout=1800 role=long_sweep bound=OP_1+16-pushes+OP_16+CHECKMULTISIG fsarr=1024
long_sweep_btc!(c14_sweep_btc_16, 16, 0x51, 0x60, 0xae, 40);
//@ id=C14,C05 tier=quick name=c14_sweep_btc_17 timeout=1800 role=long_sweep bound=OP_1+17-pushes+OP_16+CHECKMULTISIG fsarr=1024
long_sweep_btc!(c14_sweep_btc_17, 17, 0x51, 0x60, 0xae, 40);
//@ id=C14,C05 tier=extra name=c14_sweep_btc_256 timeout=7200 role=long_sweep bound=OP_1+256-pushes+OP_1+CHECKMULTISIG(u8-counter-boundary) fsarr=1024 mem=24
long_sweep_btc!(c14_sweep_btc_256, 256, 0x51, 0x51, 0xae, 520);
//@ id=C14,C05 tier=extra name=c14_sweep_btc_255 timeout=3000 role=long_sweep bound=OP_1+255-pushes fsarr=1024 mem=24
long_sweep_btc!(c14_sweep_btc_255, 255, 0x51, 0x51, 0xae, 520);
//@ id=C14,C05 tier=extra name=c14_sweep_btc_257 timeout=3000 role=long_sweep bound=OP_1+257-pushes+OP_1 fsarr=1024 mem=24
long_sweep_btc!(c14_sweep_btc_257, 257, 0x51, 0x51, 0xae, 520);
