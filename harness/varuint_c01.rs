//# target: src/blockchain/proto/varuint.rs
// C01 kernel: CompactSize decoding is complete and its raw bytes are replayed verbatim.
use std::io::Cursor;

//@ id=C01,C14 tier=quick name=c01_compactsize timeout=600 role=compactsize bound=any-9-bytes,any-available-length-0..9 fn=VarUint::read_from,VarUint::to_bytes
#[kani::proof]
#[kani::unwind(12)]
fn c01_compactsize() {
    let buf: [u8; 9] = kani::any();
    let len: usize = kani::any();
    kani::assume(len <= 9);
    let mut c = Cursor::new(&buf[..len]);
    let r = VarUint::read_from(&mut c);
    // reference: 1/3/5/9 bytes, little endian
    let need = if len == 0 { 1 } else if buf[0] < 0xfd { 1 } else if buf[0] == 0xfd { 3 } else if buf[0] == 0xfe { 5 } else { 9 };
    kani::cover!(len >= 1 && buf[0] == 0xfc, "largest one-byte value");
    kani::cover!(len >= 3 && buf[0] == 0xfd && buf[1] == 0xff && buf[2] == 0xff, "0xffff in three bytes");
    kani::cover!(len >= 3 && buf[0] == 0xfd && buf[1] == 1 && buf[2] == 0, "non-canonical 1 as fd 01 00");
    kani::cover!(len >= 5 && buf[0] == 0xfe && buf[3] == 1, "0x10000 range in five bytes");
    kani::cover!(len == 9 && buf[0] == 0xff, "nine-byte form");
    kani::cover!(len == 2 && buf[0] == 0xfd, "truncated three-byte form");
    match r {
        Ok(v) => {
            assert!(len >= need, "C01:compactsize_needs_all_its_bytes");
            let mut want: u64 = 0;
            if need == 1 {
                want = buf[0] as u64;
            } else {
                let mut i = need - 1;
                while i >= 1 { want = (want << 8) | buf[i] as u64; i -= 1; }
            }
            assert!(v.value == want, "C01:compactsize_value_little_endian");
            assert!(c.position() as usize == need, "C01:compactsize_consumes_exactly_its_width");
            let raw = v.to_bytes();
            assert!(raw.len() == need, "C01:compactsize_raw_bytes_length");
            let mut i = 0;
            while i < need { assert!(raw[i] == buf[i], "C01:compactsize_raw_bytes_replayed_verbatim"); i += 1; }
            core::mem::forget(raw);
            core::mem::forget(v);
        }
        Err(e) => {
            assert!(len < need, "C01:compactsize_decodes_when_bytes_available");
            core::mem::forget(e);
        }
    }
}
