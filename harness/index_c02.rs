//# target: src/blockchain/parser/index.rs
//# models: hashmap leveldb
// C02 index_new (max_height clamp, trimming keeps start-1..=max_height, max_height_by_blk over the
// untrimmed index), C09 kept_prev, C17 (max_height_blk_index). Also public constructors for the
// chain.rs / parser harnesses (the index types have private fields).

use crate::verif_models::leveldb as ldb;
use crate::callbacks::Callback;
use crate::blockchain::proto::block::Block;
use crate::blockchain::parser::types::CoinType;
use crate::BlockHeightRange;

pub fn mk_record(hash: [u8; 32], height: u64, blk_index: u64, data_offset: u64) -> BlockIndexRecord {
    BlockIndexRecord { block_hash: sha256d::Hash::from_byte_array(hash), blk_index: blk_index as _, data_offset: data_offset as _, version: 1, height: height as _, status: 29, tx_count: 1 }
}
pub fn mk_index(max_height: u64, block_index: HashMap<u64, BlockIndexRecord>, mhb: HashMap<u64, u64>) -> ChainIndex {
    unsafe {
        let mut x = core::mem::MaybeUninit::<ChainIndex>::zeroed();
        let p = x.as_mut_ptr();
        core::ptr::write(core::ptr::addr_of_mut!((*p).max_height), max_height);
        core::ptr::write(core::ptr::addr_of_mut!((*p).block_index), block_index);
        core::ptr::write(core::ptr::addr_of_mut!((*p).max_height_blk_index), mhb);
        x.assume_init()
    }
}
pub fn new_map<K: PartialEq, V>() -> HashMap<K, V> { HashMap::new() }

pub struct NullCb;
impl Callback for NullCb {
    fn build_subcommand() -> clap::Command where Self: Sized { clap::Command::new("null") }
    fn new(_: &clap::ArgMatches) -> Result<Self> where Self: Sized { Ok(NullCb) }
    fn on_start(&mut self, _: u64) -> Result<()> { Ok(()) }
    fn on_block(&mut self, _: &Block, _: u64) -> Result<()> { Ok(()) }
    fn on_complete(&mut self, _: u64) -> Result<()> { Ok(()) }
}
pub fn mk_coin(version_id: u8, aux: Option<u32>) -> CoinType {
    CoinType { name: String::new(), magic: 0, version_id, genesis_hash: sha256d::Hash::from_byte_array([0; 32]), aux_pow_activation_version: aux, default_folder: std::path::PathBuf::new() }
}

pub fn put_rec(i: usize, height: u8, file: u8, pos: u8) {
    unsafe {
        ldb::KEYS.v[i][0] = b'b';
        ldb::KEYS.v[i][1] = i as u8 + 1;
        ldb::KEYLEN.v[i] = 33;
        let v = &mut ldb::VALS.v[i];
        v[0] = 1; v[1] = height; v[2] = 29; v[3] = 1; v[4] = file; v[5] = pos;
        ldb::VLEN.v[i] = 6;
    }
}

pub fn set_n_rec(n: usize) { unsafe { ldb::N_REC.v = n; } }

macro_rules! index_new {
    ($name:ident, $t:expr, [$f0:expr, $f1:expr, $f2:expr, $f3:expr]) => {
        #[kani::proof]
        #[kani::unwind(8)]
        fn $name() {
            const T: usize = $t; // highest indexed height; T+1 records
            // height -> file assignment is part of the shape (symbolic file numbers make the keys of
            // max_height_blk_index symbolic: out of memory); offsets, start and end are symbolic
            let file: [u8; 4] = [$f0, $f1, $f2, $f3];
            // record contents are concrete ([measured] one symbolic byte in a record value costs 180 s / 11 GB
            // in the LevelDB-model copy loops and is irrelevant to clamping/trimming); start and end are symbolic
            let pos: [u8; 4] = [10, 11, 12, 13];
            let mut i = 0;
            while i <= T {
                put_rec(i, i as u8, file[i], pos[i]);
                i += 1;
            }
            set_n_rec(T + 1);
            let start: u64 = kani::any();
            let has_end: bool = kani::any();
            let e: u64 = kani::any();
            kani::assume(!has_end || start < e);
            let end = if has_end { Some(e) } else { None };
            let options = crate::ParserOptions {
                callback: Box::new(NullCb), coin: mk_coin(0, None), verify: false,
                blockchain_dir: std::path::PathBuf::new(), log_level_filter: log::LevelFilter::Off,
                range: BlockHeightRange { start, end },
            };
            let idx = match ChainIndex::new(&options) {
                Ok(x) => x,
                Err(er) => { core::mem::forget(er); assert!(false, "C02:index_builds"); return; }
            };
            let want_max = if has_end && e < T as u64 { e } else { T as u64 };
            assert!(idx.max_height() as u64 == want_max, "C02:max_height_is_min_of_end_and_tip");
            let lo = start.saturating_sub(1);
            let mut h = 0usize;
            while h <= T {
                if (h as u64) >= lo && (h as u64) <= want_max {
                    match idx.get(h as u64) {
                        Some(r) => {
                            assert!(r.blk_index as u64 == file[h] as u64 && r.data_offset as u64 == pos[h] as u64, "C02:kept_record_unchanged");
                        }
                        None => { assert!(false, "C02:heights_from_start_minus_one_to_max_are_kept"); }
                    }
                }
                h += 1;
            }
            // max_height_by_blk over the UNTRIMMED index
            let mut f = 0u8;
            while f < 3 {
                let mut best: i64 = -1;
                let mut h = 0usize;
                while h <= T { if file[h] == f { best = h as i64; } h += 1; }
                if best >= 0 {
                    assert!(idx.max_height_by_blk(f as u64) as i64 == best, "C17:max_height_by_blk_is_highest_height_stored_in_file");
                }
                f += 1;
            }
            kani::cover!(T == 0 || (has_end && e == T as u64), "end at tip");
            kani::cover!(has_end && e > T as u64, "end above tip");
            kani::cover!(T <= 1 || (has_end && e < T as u64), "end below tip"); // start < end rules it out for T <= 1
            kani::cover!(!has_end && start == 0, "whole chain");
            kani::cover!(start > T as u64, "start above tip");
            kani::cover!(T == 0 || start == T as u64, "start at tip");
            core::mem::forget(idx);
            core::mem::forget(options);
        }
    };
}

//@ id=C02,C09,C17 tier=quick name=c02_index_new_t0 timeout=900 role=index_new bound=tip-0,start/end-full-width-u64 fn=ChainIndex::new,get_block_index,ChainIndex::max_height_by_blk
index_new!(c02_index_new_t0, 0, [0, 0, 0, 0]);
//@ id=C02,C09,C17 tier=quick name=c02_index_new_t2 timeout=1500 role=index_new bound=tip-2,3-records-in-files-0,1,0(interleaved),start/end-full-width-u64
index_new!(c02_index_new_t2, 2, [0, 1, 0, 0]);
//@ id=C02,C09,C17 tier=thorough name=c02_index_new_t1 timeout=1500 role=index_new bound=tip-1
index_new!(c02_index_new_t1, 1, [1, 0, 0, 0]);
//@ id=C02,C09,C17 tier=thorough name=c02_index_new_t3 timeout=3000 role=index_new bound=tip-3,4-records-in-files-0,0,1,2
index_new!(c02_index_new_t3, 3, [0, 0, 1, 2]);
