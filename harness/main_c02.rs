//# target: src/main.rs
// C02 kernel: BlockHeightRange::new accepts exactly the ranges with start < end (or no end).

//@ id=C02 tier=quick name=c02_range_new timeout=600 role=range_new bound=all-u64-start,all-Option-u64-end fn=BlockHeightRange::new,BlockHeightRange::is_default
#[kani::proof]
#[kani::unwind(4)]
fn c02_range_new() {
    let start: u64 = kani::any();
    let has_end: bool = kani::any();
    let e: u64 = kani::any();
    let end = if has_end { Some(e) } else { None };
    let accept = !has_end || start < e;
    kani::cover!(has_end && start == e, "start == end rejected");
    kani::cover!(has_end && e > 0 && start == e - 1, "one-block range");
    kani::cover!(!has_end && start == 0, "default range");
    kani::cover!(!has_end && start == u64::MAX, "open range from a huge start");
    match BlockHeightRange::new(start, end) {
        Ok(r) => {
            assert!(accept, "C02:range_rejects_start_not_below_end");
            assert!(r.start == start && r.end == end, "C02:range_keeps_bounds");
            assert!(r.is_default() == (start == 0 && !has_end), "C02:default_range_is_whole_chain");
        }
        Err(e) => { assert!(!accept, "C02:range_accepts_start_below_end"); core::mem::forget(e); }
    }
}
