//# target: src/common/utils.rs
// C09 merkle_schedule: utils::merkle_root follows Bitcoin's schedule (pair left to right, odd levels
// duplicate their last hash). The hash is uninterpreted (ghost call log): the claim is about tree
// shape and argument order, not about SHA-256.
use crate::verif_models::ghost;

fn cat(l: &[u8; 32], r: &[u8; 32]) -> [u8; 64] {
    let mut o = [0u8; 64];
    let mut i = 0;
    while i < 32 { o[i] = l[i]; o[32 + i] = r[i]; i += 1; }
    o
}

macro_rules! merkle_schedule {
    ($name:ident, $n:expr) => {
        #[kani::proof]
        #[kani::unwind(66)]
        #[kani::stub(<bitcoin::hashes::sha256::HashEngine as bitcoin::hashes::HashEngine>::input, ghost::stub_engine_input)]
        #[kani::stub(<bitcoin::hashes::sha256d::Hash as bitcoin::hashes::Hash>::from_engine, ghost::stub_sha256d_fin)]
        fn $name() {
            ghost::init(kani::any());
            const N: usize = $n;
            let leaves: [[u8; 32]; N] = kani::any();
            let mut v = Vec::with_capacity(N);
            let mut i = 0;
            while i < N { v.push(sha256d::Hash::from_byte_array(leaves[i])); i += 1; }
            let root = merkle_root(v);
            // reference schedule over the digests of the previous level
            let mut level = [[0u8; 32]; 16];
            let mut len = N;
            let mut i = 0;
            while i < N { level[i] = leaves[i]; i += 1; }
            let mut call = 0usize;
            while len > 1 {
                let mut next = [[0u8; 32]; 16];
                let mut m = 0;
                let mut j = 0;
                while j + 1 < len {
                    let pre = cat(&level[j], &level[j + 1]);
                    let d = ghost::sha256d_call(call, &pre);
                    assert!(d.is_some(), "C09:merkle_pairs_left_to_right");
                    next[m] = d.unwrap_or([0; 32]);
                    m += 1; call += 1; j += 2;
                }
                if len % 2 == 1 {
                    let pre = cat(&level[len - 1], &level[len - 1]);
                    let d = ghost::sha256d_call(call, &pre);
                    assert!(d.is_some(), "C09:merkle_odd_level_duplicates_its_last_hash");
                    next[m] = d.unwrap_or([0; 32]);
                    m += 1; call += 1;
                }
                level = next;
                len = m;
            }
            assert!(ghost::n_hash_calls(call) == call, "C09:merkle_no_extra_hashing");
            let rb = root.to_byte_array();
            let mut i = 0;
            while i < 32 { assert!(rb[i] == level[0][i], "C09:merkle_root_is_the_last_digest"); i += 1; }
            kani::cover!(true, "schedule compared");
        }
    };
}
//@ id=C09 tier=quick name=c09_merkle_1 timeout=900 role=merkle_schedule bound=1-leaf fn=utils::merkle_root
merkle_schedule!(c09_merkle_1, 1);
//@ id=C09 tier=quick name=c09_merkle_2 timeout=900 role=merkle_schedule bound=2-leaves
merkle_schedule!(c09_merkle_2, 2);
//@ id=C09 tier=quick name=c09_merkle_3 timeout=1200 role=merkle_schedule bound=3-leaves(odd-first-level)
merkle_schedule!(c09_merkle_3, 3);
//@ id=C09 tier=quick name=c09_merkle_5 timeout=1800 role=merkle_schedule bound=5-leaves(odd-at-two-levels)
merkle_schedule!(c09_merkle_5, 5);
//@ id=C09 tier=thorough name=c09_merkle_4 timeout=1800 role=merkle_schedule bound=4-leaves
merkle_schedule!(c09_merkle_4, 4);
//@ id=C09 tier=thorough name=c09_merkle_6 timeout=2400 role=merkle_schedule bound=6-leaves
merkle_schedule!(c09_merkle_6, 6);
//@ id=C09 tier=thorough name=c09_merkle_7 timeout=2400 role=merkle_schedule bound=7-leaves
merkle_schedule!(c09_merkle_7, 7);
//@ id=C09 tier=thorough name=c09_merkle_9 timeout=3000 role=merkle_schedule bound=9-leaves(odd-at-three-levels)
merkle_schedule!(c09_merkle_9, 9);

// C01 hex kernel
//@ id=C01 tier=quick name=c01_hex timeout=900 role=hex bound=2-symbolic-bytes fn=utils::arr_to_hex
#[kani::proof]
#[kani::unwind(8)]
fn c01_hex() {
    let d: [u8; 2] = kani::any();
    let s = arr_to_hex(&d);
    let b = s.as_bytes();
    assert!(b.len() == 4, "C01:hex_two_digits_per_byte");
    let dig = |n: u8| if n < 10 { b'0' + n } else { b'a' + (n - 10) };
    assert!(b[0] == dig(d[0] >> 4) && b[1] == dig(d[0] & 15) && b[2] == dig(d[1] >> 4) && b[3] == dig(d[1] & 15), "C01:hex_is_lowercase_nibbles_in_order");
    kani::cover!(d[0] == 0x0a && d[1] == 0xf0, "leading zero nibble and letters");
    core::mem::forget(s);
}
