//# target: src/callbacks/common.rs
//# models: hashmap
// C07 utxo_history: remove_unspents / insert_unspents against a flat alive-table oracle over
// symbolic spend histories; C08 same_set (Balances and UnspentCsvDump drive the same two functions).
use crate::blockchain::proto::script::{EvaluatedScript, ScriptPattern};
use crate::blockchain::proto::tx::{EvaluatedTxOut, TxInput, TxOutput};
use crate::blockchain::proto::varuint::VarUint;
use bitcoin::hashes::{sha256d, Hash};

pub fn mk_out(value: u64, addr: u8) -> EvaluatedTxOut {
    // addr: 0 = none, 1 = "a", 2 = "b"
    let a = if addr == 0 { None } else if addr == 1 { Some(String::from("a")) } else { Some(String::from("b")) };
    EvaluatedTxOut { script: EvaluatedScript::new(a, ScriptPattern::NotRecognised), out: TxOutput { value, script_len: VarUint::from(0u8), script_pubkey: Vec::new() } }
}
pub fn mk_in(txid: [u8; 32], index: u32) -> TxInput {
    TxInput { outpoint: TxOutpoint::new(sha256d::Hash::from_byte_array(txid), index), script_len: VarUint::from(0u8), script_sig: Vec::new(), seq_no: 0 }
}
pub fn mk_htx(id: [u8; 32], inputs: Vec<TxInput>, outputs: Vec<EvaluatedTxOut>) -> Hashed<EvaluatedTx> {
    let ni = inputs.len() as u8;
    let no = outputs.len() as u8;
    Hashed { hash: sha256d::Hash::from_byte_array(id), value: EvaluatedTx { version: 1, in_count: VarUint::from(ni), inputs, out_count: VarUint::from(no), outputs, locktime: 0 } }
}

// ---- flat alive-table oracle ---------------------------------------------------------------
const MAXO: usize = 6;
#[derive(Clone, Copy)]
struct Ent { id: [u8; 32], idx: u32, alive: bool, h: u64, v: u64, addr: u8 }
struct Table { e: [Ent; MAXO], n: usize }
fn same_id(a: &[u8; 32], b: &[u8; 32]) -> bool {
    let mut i = 0;
    while i < 32 { if a[i] != b[i] { return false; } i += 1; }
    true
}
impl Table {
    fn new() -> Table { Table { e: [Ent { id: [0; 32], idx: 0, alive: false, h: 0, v: 0, addr: 0 }; MAXO], n: 0 } }
    fn spend(&mut self, id: &[u8; 32], idx: u32) {
        let mut i = 0;
        while i < self.n { if self.e[i].alive && self.e[i].idx == idx && same_id(&self.e[i].id, id) { self.e[i].alive = false; } i += 1; }
    }
    fn create(&mut self, id: &[u8; 32], idx: u32, h: u64, v: u64, addr: u8) {
        if addr == 0 { return; } // address-less outputs are never listed
        self.spend(id, idx);    // a later output with the same txid and index replaces the earlier one
        self.e[self.n] = Ent { id: *id, idx, alive: true, h, v, addr };
        self.n += 1;
    }
}
pub fn key_of(id: &[u8; 32], idx: u32) -> Vec<u8> {
    let mut k = Vec::with_capacity(36);
    k.extend_from_slice(id);
    k.extend_from_slice(&idx.to_le_bytes());
    k
}
fn check_final(t: &Table, m: &HashMap<Vec<u8>, UnspentValue>) {
    let mut alive = 0;
    let mut i = 0;
    while i < t.n {
        let k = key_of(&t.e[i].id, t.e[i].idx);
        if t.e[i].alive {
            alive += 1;
            match m.get(&k) {
                Some(u) => {
                    assert!(u.block_height == t.e[i].h, "C07:listed_with_creation_height");
                    assert!(u.value == t.e[i].v, "C07:listed_with_value");
                    assert!(u.address.as_str() == if t.e[i].addr == 1 { "a" } else { "b" }, "C07:listed_with_address");
                }
                None => { assert!(false, "C07:unspent_address_bearing_output_is_listed"); }
            }
        }
        core::mem::forget(k);
        i += 1;
    }
    assert!(m.len() == alive, "C07:nothing_else_is_listed_and_nothing_twice");
}

// history A: block 5 = {tx1: 2 outputs}; block 6 = {tx2: 1 input (symbolic outpoint), 1 output}
//@ id=C07,C08 tier=quick name=c07_history_2tx timeout=1800 role=utxo_history bound=2-blocks,2-txs,symbolic-txids/spend-outpoint/values/addresses(incl-duplicate-txid) fn=remove_unspents,insert_unspents,TxOutpoint::to_bytes mem=20
#[kani::proof]
#[kani::unwind(40)]
fn c07_history_2tx() {
    let id1: [u8; 32] = kani::any();
    let id2: [u8; 32] = kani::any();
    let v: [u64; 3] = kani::any();
    let a: [u8; 3] = kani::any();
    kani::assume(a[0] < 3 && a[1] < 3 && a[2] < 3);
    let sp_id: [u8; 32] = kani::any();
    let sp_ix: u32 = kani::any();
    // tx1 spends an outpoint unknown to the range (a non-empty input list: CBMC does not decide the iterator end of an empty Vec)
    let tx1 = mk_htx(id1, vec![mk_in([9u8; 32], 7)], vec![mk_out(v[0], a[0]), mk_out(v[1], a[1])]);
    let tx2 = mk_htx(id2, vec![mk_in(sp_id, sp_ix)], vec![mk_out(v[2], a[2])]);
    let mut m: HashMap<Vec<u8>, UnspentValue> = HashMap::new();
    let i1 = remove_unspents(&tx1, &mut m);
    let o1 = insert_unspents(&tx1, 5, &mut m);
    let i2 = remove_unspents(&tx2, &mut m);
    let o2 = insert_unspents(&tx2, 6, &mut m);
    assert!(i1 == 1 && i2 == 1, "C07:input_totals");
    assert!(o1 == (a[0] != 0) as u64 + (a[1] != 0) as u64 && o2 == (a[2] != 0) as u64, "C07:output_totals_count_address_bearing_outputs");
    let mut t = Table::new();
    t.create(&id1, 0, 5, v[0], a[0]);
    t.create(&id1, 1, 5, v[1], a[1]);
    t.spend(&sp_id, sp_ix);
    t.create(&id2, 0, 6, v[2], a[2]);
    check_final(&t, &m);
    kani::cover!(same_id(&sp_id, &id1) && sp_ix == 1 && a[1] != 0, "spend of the second output of tx1");
    kani::cover!(same_id(&sp_id, &id1) && sp_ix > 255, "spend of an index past 255 (unknown outpoint)");
    kani::cover!(!same_id(&sp_id, &id1), "spend of an outpoint unknown to the range");
    kani::cover!(same_id(&id1, &id2) && a[0] != 0 && a[2] != 0, "duplicate txid: later output replaces the earlier one");
    kani::cover!(a[0] == 0 && a[1] == 0, "address-less outputs only");
    kani::cover!(v[0] == 0 && a[0] != 0, "zero-value output is listed");
    core::mem::forget(m); core::mem::forget(tx1); core::mem::forget(tx2);
}

// history B: block 5 = {tx1: 1 output}; block 6 = {tx2: spends X, 1 output; tx3: spends Y (may be tx2's output: in-block spend), 1 output}
//@ id=C07,C08 tier=thorough name=c07_history_3tx timeout=3600 role=utxo_history bound=2-blocks,3-txs,in-block-spend,two-symbolic-spend-outpoints mem=24
#[kani::proof]
#[kani::unwind(40)]
fn c07_history_3tx() {
    let id1: [u8; 32] = kani::any();
    let id2: [u8; 32] = kani::any();
    let id3: [u8; 32] = kani::any();
    let v: [u64; 3] = kani::any();
    let a: [u8; 3] = kani::any();
    kani::assume(a[0] < 3 && a[1] < 3 && a[2] < 3);
    let x_id: [u8; 32] = kani::any();
    let x_ix: u32 = kani::any();
    let y_id: [u8; 32] = kani::any();
    let y_ix: u32 = kani::any();
    let tx1 = mk_htx(id1, vec![mk_in([9u8; 32], 7)], vec![mk_out(v[0], a[0])]);
    let tx2 = mk_htx(id2, vec![mk_in(x_id, x_ix)], vec![mk_out(v[1], a[1])]);
    let tx3 = mk_htx(id3, vec![mk_in(y_id, y_ix)], vec![mk_out(v[2], a[2])]);
    let mut m: HashMap<Vec<u8>, UnspentValue> = HashMap::new();
    remove_unspents(&tx1, &mut m); insert_unspents(&tx1, 5, &mut m);
    remove_unspents(&tx2, &mut m); insert_unspents(&tx2, 6, &mut m);
    remove_unspents(&tx3, &mut m); insert_unspents(&tx3, 6, &mut m);
    let mut t = Table::new();
    t.create(&id1, 0, 5, v[0], a[0]);
    t.spend(&x_id, x_ix);
    t.create(&id2, 0, 6, v[1], a[1]);
    t.spend(&y_id, y_ix);
    t.create(&id3, 0, 6, v[2], a[2]);
    check_final(&t, &m);
    kani::cover!(same_id(&y_id, &id2) && y_ix == 0 && a[1] != 0, "spend inside the creating block");
    kani::cover!(same_id(&x_id, &id1) && x_ix == 0 && same_id(&y_id, &id1) && y_ix == 0, "two inputs referencing one outpoint");
    kani::cover!(same_id(&x_id, &id3) && x_ix == 0, "spend of a later output (not yet created): no effect");
    core::mem::forget(m); core::mem::forget(tx1); core::mem::forget(tx2); core::mem::forget(tx3);
}

//@ id=C07 tier=quick name=c07_key_layout timeout=900 role=key_roundtrip bound=any-txid,any-u32-index fn=TxOutpoint::to_bytes
#[kani::proof]
#[kani::unwind(40)]
fn c07_key_layout() {
    let id: [u8; 32] = kani::any();
    let ix: u32 = kani::any();
    let k = TxOutpoint::new(sha256d::Hash::from_byte_array(id), ix).to_bytes();
    assert!(k.len() == 36, "C07:outpoint_key_is_36_bytes");
    let mut i = 0;
    while i < 32 { assert!(k[i] == id[i], "C07:outpoint_key_starts_with_txid"); i += 1; }
    assert!(u32::from_le_bytes([k[32], k[33], k[34], k[35]]) == ix, "C07:outpoint_key_ends_with_le_index");
    kani::cover!(ix > 255, "index past 255");
    kani::cover!(ix == u32::MAX, "maximal index");
    core::mem::forget(k);
}
