//# target: src/callbacks/simplestats.rs
//# models: hashmap
// C15: every accumulator the simplestats report reads equals an independent recomputation.
// Two blocks x two transactions, built directly (no parsing): symbolic output values, heights,
// timestamps, block sizes, txids, coinbase-ness; concrete shapes (script lengths decide tx sizes:
// one instance with a size tie inside a block, one with distinct sizes).

use crate::blockchain::proto::header::BlockHeader;
use crate::blockchain::proto::script::EvaluatedScript;
use crate::blockchain::proto::tx::{EvaluatedTx, EvaluatedTxOut, TxInput, TxOutpoint, TxOutput};
use crate::blockchain::proto::varuint::VarUint;
use crate::blockchain::proto::Hashed;

fn h32(b: u8) -> sha256d::Hash {
    let mut a = [0u8; 32];
    a[0] = b;
    sha256d::Hash::from_byte_array(a)
}

fn mk_out(value: u64, script_len: u8, pattern: ScriptPattern) -> EvaluatedTxOut {
    EvaluatedTxOut {
        script: EvaluatedScript::new(None, pattern),
        out: TxOutput { value, script_len: VarUint::from(script_len), script_pubkey: vec![0u8; script_len as usize] },
    }
}

fn mk_tx(txid: u8, prev_first: u8, prev_index: u32, sig_len: u8, outs: Vec<EvaluatedTxOut>) -> Hashed<EvaluatedTx> {
    let mut prev = [0u8; 32];
    prev[0] = prev_first;
    let inp = TxInput {
        outpoint: TxOutpoint::new(sha256d::Hash::from_byte_array(prev), prev_index),
        script_len: VarUint::from(sig_len),
        script_sig: vec![0u8; sig_len as usize],
        seq_no: 0,
    };
    let n = outs.len() as u8;
    Hashed {
        hash: h32(txid),
        value: EvaluatedTx { version: 1, in_count: VarUint::from(1u8), inputs: vec![inp], out_count: VarUint::from(n), outputs: outs, locktime: 0 },
    }
}

fn mk_block(size: u32, timestamp: u32, txs: Vec<Hashed<EvaluatedTx>>) -> Block {
    let z = sha256d::Hash::all_zeros();
    let n = txs.len() as u8;
    Block {
        size,
        header: Hashed { hash: z, value: BlockHeader { version: 1, prev_hash: z, merkle_root: z, timestamp, bits: 0, nonce: 0 } },
        aux_pow_extension: None,
        tx_count: VarUint::from(n),
        txs,
    }
}

fn reward(h: u64) -> u64 {
    // 50 coins halved (floor) every 210000 heights
    let mut r: u64 = 50 * 100_000_000;
    let mut k = h / 210_000;
    while k > 0 {
        r /= 2;
        k -= 1;
    }
    r
}
/// same definition, loop-free for heights below 840000 (keeps the accumulate harnesses' unwinding small)
fn reward_small(h: u64) -> u64 {
    if h < 210_000 { 5_000_000_000 } else if h < 420_000 { 2_500_000_000 } else if h < 630_000 { 1_250_000_000 } else { 625_000_000 }
}

// tx sizes: 4 + 1 + (36 + 1 + sig + 4) + 1 + sum(8 + 1 + script) + 4
fn tx_size(sig: usize, outs: &[usize]) -> usize {
    let mut s = 4 + 1 + 36 + 1 + sig + 4 + 1 + 4;
    let mut i = 0;
    while i < outs.len() {
        s += 8 + 1 + outs[i];
        i += 1;
    }
    s
}

// per-type bookkeeping is cut out of the accumulate harnesses (comparing ScriptPattern keys that
// may hold Strings makes CBMC unwind memcmp on merged slots); it is checked by c15_types /
// c15_pattern_any / c15_opreturn_strip on concrete block contents.
static mut PTP_N: crate::verif_models::Tg<usize> = crate::verif_models::Tg { v: 0, tag: 0x5eedc0de0000004b };
static mut PTP_KIND: crate::verif_models::Tg<[u8; 8]> = crate::verif_models::Tg { v: [0; 8], tag: 0x5eedc0de0000004c };
static mut PTP_H: crate::verif_models::Tg<[u64; 8]> = crate::verif_models::Tg { v: [0; 8], tag: 0x5eedc0de0000004d };
static mut PTP_TX: crate::verif_models::Tg<[u8; 8]> = crate::verif_models::Tg { v: [0; 8], tag: 0x5eedc0de0000004e };
static mut PTP_IDX: crate::verif_models::Tg<[u32; 8]> = crate::verif_models::Tg { v: [0; 8], tag: 0x5eedc0de0000004f };
fn kind_of(p: &ScriptPattern) -> u8 {
    match p {
        ScriptPattern::Pay2PublicKeyHash => 1,
        ScriptPattern::Pay2MultiSig => 2,
        ScriptPattern::NotRecognised => 3,
        ScriptPattern::Pay2ScriptHash => 4,
        _ => 9,
    }
}
fn stub_ptp(_s: &mut SimpleStats, p: ScriptPattern, h: u64, t: sha256d::Hash, i: u32) {
    unsafe {
        if PTP_N.v < 8 {
            PTP_KIND.v[PTP_N.v] = kind_of(&p);
            PTP_H.v[PTP_N.v] = h;
            PTP_TX.v[PTP_N.v] = t.to_byte_array()[0];
            PTP_IDX.v[PTP_N.v] = i;
        }
        PTP_N.v += 1;
    }
    core::mem::forget(p);
}
/// every output is handed to the per-type bookkeeping with (its pattern, block height, txid, output index), in chain order.
/// CBMC mode: recorded calls of the cut-out function; native replay: the resulting maps of the real function.
#[cfg(not(test))]
fn types_fed_in_order(_st: &SimpleStats, h0: u64, h1: u64) -> bool {
    let want: [(u8, u64, u8, u32); 6] = [(1, h0, 0xa1, 0), (2, h0, 0xa1, 1), (3, h0, 0xb2, 0), (2, h1, 0xc3, 0), (1, h1, 0xd4, 0), (4, h1, 0xd4, 1)];
    unsafe {
        if PTP_N.v != 6 { return false; }
        let mut i = 0;
        while i < 6 {
            if PTP_KIND.v[i] != want[i].0 || PTP_H.v[i] != want[i].1 || PTP_TX.v[i] != want[i].2 || PTP_IDX.v[i] != want[i].3 { return false; }
            i += 1;
        }
    }
    true
}
#[cfg(test)]
fn types_fed_in_order(st: &SimpleStats, h0: u64, h1: u64) -> bool {
    st.n_tx_types.get(&ScriptPattern::Pay2PublicKeyHash) == Some(&2)
        && st.n_tx_types.get(&ScriptPattern::Pay2MultiSig) == Some(&2)
        && st.n_tx_types.get(&ScriptPattern::NotRecognised) == Some(&1)
        && st.n_tx_types.get(&ScriptPattern::Pay2ScriptHash) == Some(&1)
        && st.tx_first_occs.get(&ScriptPattern::Pay2PublicKeyHash) == Some(&(h0, h32(0xa1), 0))
        && st.tx_first_occs.get(&ScriptPattern::Pay2MultiSig) == Some(&(h0, h32(0xa1), 1))
        && st.tx_first_occs.get(&ScriptPattern::NotRecognised) == Some(&(h0, h32(0xb2), 0))
        && st.tx_first_occs.get(&ScriptPattern::Pay2ScriptHash) == Some(&(h1, h32(0xd4), 1))
}

macro_rules! accumulate {
    ($name:ident, $sig:expr, $s00:expr, $s01:expr, $s10:expr, $s11:expr) => {
        #[kani::proof]
        #[kani::unwind(34)]
        #[kani::stub(SimpleStats::process_tx_pattern, stub_ptp)]
        fn $name() {
            // symbolic content
            let v: [u64; 6] = kani::any();
            let mut i = 0;
            while i < 6 { kani::assume(v[i] < (1u64 << 60)); i += 1; }
            let h0: u64 = kani::any();
            kani::assume(h0 < 630_000);
            let h1 = h0 + 1;
            let ts0: u32 = kani::any();
            let ts1: u32 = kani::any();
            kani::assume(ts0 >= 1);
            let bs0: u32 = kani::any();
            let bs1: u32 = kani::any();
            let cb0_first: u8 = kani::any();
            let cb0_index: u32 = kani::any();
            let cb1_first: u8 = kani::any();
            let cb1_index: u32 = kani::any();
            // block 0: tx A (maybe coinbase; outputs v0,v1), tx B (output v2)
            // block 1: tx C (maybe coinbase; output v3), tx D (outputs v4,v5)
            let sig: [u8; 4] = $sig;
            let ta = mk_tx(0xa1, cb0_first, cb0_index, sig[0], vec![mk_out(v[0], $s00, ScriptPattern::Pay2PublicKeyHash), mk_out(v[1], 0, ScriptPattern::Pay2MultiSig)]);
            let tb = mk_tx(0xb2, 0x77, 0, sig[1], vec![mk_out(v[2], $s01, ScriptPattern::NotRecognised)]);
            let tc = mk_tx(0xc3, cb1_first, cb1_index, sig[2], vec![mk_out(v[3], $s10, ScriptPattern::Pay2MultiSig)]);
            let td = mk_tx(0xd4, 0x78, 1, sig[3], vec![mk_out(v[4], $s11, ScriptPattern::Pay2PublicKeyHash), mk_out(v[5], 0, ScriptPattern::Pay2ScriptHash)]);
            let b0 = mk_block(bs0, ts0, vec![ta, tb]);
            let b1 = mk_block(bs1, ts1, vec![tc, td]);

            let mut st = SimpleStats::default();
            let r0 = st.on_block(&b0, h0);
            let r1 = st.on_block(&b1, h1);
            assert!(r0.is_ok() && r1.is_ok(), "C15:on_block_ok");

            // ---- independent recomputation ----
            assert!(st.n_valid_blocks == 2, "C15:block_count");
            assert!(st.n_tx == 4, "C15:tx_count");
            assert!(st.n_tx_inputs == 4, "C15:input_count");
            assert!(st.n_tx_outputs == 6, "C15:output_count");
            let vol = v[0] + v[1] + v[2] + v[3] + v[4] + v[5];
            assert!(st.n_tx_total_volume == vol, "C15:total_volume");
            let a_cb = cb0_first == 0 && cb0_index == 0xffff_ffff;
            let c_cb = cb1_first == 0 && cb1_index == 0xffff_ffff;
            let mut fee = 0u64;
            if a_cb && v[0] > reward_small(h0) { fee += v[0] - reward_small(h0); }
            if c_cb && v[3] > reward_small(h1) { fee += v[3] - reward_small(h1); }
            assert!(st.n_tx_total_fee == fee, "C15:total_fees");
            // biggest by value: first on ties, order A,B,C,D
            let tv = [v[0] + v[1], v[2], v[3], v[4] + v[5]];
            let hs = [h0, h0, h1, h1];
            let ids = [0xa1u8, 0xb2, 0xc3, 0xd4];
            let mut best = 0usize;
            let mut i = 1;
            while i < 4 { if tv[i] > tv[best] { best = i; } i += 1; }
            if tv[best] > 0 {
                assert!(st.tx_biggest_value.0 == tv[best], "C15:biggest_value_amount");
                assert!(st.tx_biggest_value.1 == hs[best], "C15:biggest_value_height");
                assert!(st.tx_biggest_value.2 == h32(ids[best]), "C15:biggest_value_txid_first_on_ties");
            }
            // biggest by size: first on ties
            let sz = [tx_size(sig[0] as usize, &[$s00 as usize, 0]), tx_size(sig[1] as usize, &[$s01 as usize]),
                      tx_size(sig[2] as usize, &[$s10 as usize]), tx_size(sig[3] as usize, &[$s11 as usize, 0])];
            let mut bs = 0usize;
            let mut i = 1;
            while i < 4 { if sz[i] > sz[bs] { bs = i; } i += 1; }
            assert!(st.tx_biggest_size.0 == sz[bs], "C15:biggest_size_bytes");
            assert!(st.tx_biggest_size.1 == hs[bs], "C15:biggest_size_height");
            assert!(st.tx_biggest_size.2 == h32(ids[bs]), "C15:biggest_size_txid_first_on_ties");
            // sample vectors for the means
            assert!(st.block_sizes.len() == 2 && st.block_sizes[0] == bs0 && st.block_sizes[1] == bs1, "C15:block_size_samples");
            let gap = if ts1 > ts0 { ts1 - ts0 } else { 0 };
            assert!(st.t_between_blocks.len() == 1 && st.t_between_blocks[0] == gap, "C15:clamped_time_gap_sample");
            assert!(types_fed_in_order(&st, h0, h1), "C15:every_output_counted_under_its_type_with_height_txid_index");
            kani::cover!(a_cb && v[0] > reward_small(h0), "coinbase with fees");
            kani::cover!(a_cb && v[0] < reward_small(h0), "coinbase below subsidy (floored)");
            kani::cover!(!a_cb && c_cb, "second block coinbase only");
            kani::cover!(tv[0] == tv[3] && tv[0] > tv[1] && tv[0] > tv[2], "value tie across blocks");
            kani::cover!(ts1 < ts0, "non-monotonic timestamps");
            kani::cover!(vol > u32::MAX as u64, "volume beyond 2^32");
            core::mem::forget(st);
            core::mem::forget(b0);
            core::mem::forget(b1);
        }
    };
}

//@ id=C15 tier=quick name=c15_acc_tie_in_block timeout=1500 mem=24 role=accumulate bound=2-blocks-x-2-txs,size-tie-inside-block-0-and-1 fn=SimpleStats::on_block,SimpleStats::process_tx_pattern,EvaluatedTx::to_bytes,EvaluatedTx::is_coinbase,get_base_reward
accumulate!(c15_acc_tie_in_block, [9, 0, 2, 0], 0, 18, 16, 9);
//@ id=C15 tier=quick name=c15_acc_distinct timeout=1500 mem=24 role=accumulate bound=2-blocks-x-2-txs,distinct-sizes,largest-last
accumulate!(c15_acc_distinct, [0, 1, 2, 3], 0, 1, 2, 3);
//@ id=C15 tier=thorough name=c15_acc_tie_across timeout=2400 mem=24 role=accumulate bound=2-blocks-x-2-txs,size-tie-across-blocks
accumulate!(c15_acc_tie_across, [3, 0, 1, 0], 2, 3, 13, 0);

//@ id=C15 tier=quick name=c15_reward timeout=300 role=reward bound=all-heights-below-13440000 fn=get_base_reward
#[kani::proof]
#[kani::unwind(66)]
fn c15_reward() {
    let h: u64 = kani::any();
    kani::assume(h < 64 * 210_000);
    let got = block::get_base_reward(h);
    assert!(got == reward(h), "C15:base_reward_halving");
    kani::cover!(h == 209_999, "last height of first era");
    kani::cover!(h == 210_000, "first halving");
    kani::cover!(h / 210_000 == 33, "reward reaches zero");
}

//@ id=C15,C14 tier=quick name=c15_pattern_any timeout=600 role=pattern_total bound=every-ScriptPattern-variant-incl-Error fn=SimpleStats::process_tx_pattern
#[kani::proof]
#[kani::unwind(8)]
fn c15_pattern_any() {
    let which: u8 = kani::any();
    kani::assume(which < 13);
    let p = match which {
        0 => ScriptPattern::OpReturn(String::from("x")),
        1 => ScriptPattern::Pay2MultiSig,
        2 => ScriptPattern::Pay2PublicKey,
        3 => ScriptPattern::Pay2PublicKeyHash,
        4 => ScriptPattern::Pay2ScriptHash,
        5 => ScriptPattern::Pay2WitnessPublicKeyHash,
        6 => ScriptPattern::Pay2WitnessScriptHash,
        7 => ScriptPattern::WitnessProgram,
        8 => ScriptPattern::Pay2Taproot,
        9 => ScriptPattern::Unspendable,
        10 => ScriptPattern::NotRecognised,
        11 => ScriptPattern::Error(crate::blockchain::proto::script::ScriptError::UnexpectedEof),
        _ => ScriptPattern::Error(crate::blockchain::proto::script::ScriptError::InvalidFormat),
    };
    let mut st = SimpleStats::default();
    st.process_tx_pattern(p.clone(), 7, h32(1), 3);
    st.process_tx_pattern(p, 8, h32(2), 4);
    assert!(st.n_tx_types.len() == 1, "C15:same_pattern_one_key");
    assert!(st.tx_first_occs.len() == 1, "C15:first_occurrence_kept");
    kani::cover!(which == 12, "Error pattern counted without panic");
    core::mem::forget(st);
}

//@ id=C15 tier=quick name=c15_opreturn_strip timeout=900 role=pattern_total bound=two-OP_RETURN-outputs-with-different-payloads fn=SimpleStats::process_tx_pattern
#[kani::proof]
#[kani::unwind(34)]
fn c15_opreturn_strip() {
    let mut st = SimpleStats::default();
    st.process_tx_pattern(ScriptPattern::OpReturn(String::from("ab")), 7, h32(1), 3);
    st.process_tx_pattern(ScriptPattern::Pay2PublicKey, 7, h32(1), 4);
    st.process_tx_pattern(ScriptPattern::OpReturn(String::from("cd")), 8, h32(2), 0);
    let k = ScriptPattern::OpReturn(String::new());
    assert!(st.n_tx_types.len() == 2, "C15:opreturn_payload_stripped_one_key");
    assert!(st.n_tx_types.get(&k) == Some(&2), "C15:type_count_opreturn");
    assert!(st.tx_first_occs.get(&k) == Some(&(7, h32(1), 3)), "C15:first_occurrence_opreturn");
    kani::cover!(true, "evaluated");
    core::mem::forget(st);
}

// per-type counts and first occurrences: the bookkeeping function itself on a call sequence
//@ id=C15 tier=quick name=c15_types timeout=900 role=types bound=4-calls,2-types fn=SimpleStats::process_tx_pattern
#[kani::proof]
#[kani::unwind(34)]
fn c15_types() {
    let mut st = SimpleStats::default();
    st.process_tx_pattern(ScriptPattern::Pay2PublicKeyHash, 5, h32(0xa1), 0);
    st.process_tx_pattern(ScriptPattern::Pay2ScriptHash, 5, h32(0xa1), 1);
    st.process_tx_pattern(ScriptPattern::Pay2PublicKeyHash, 6, h32(0xb2), 0);
    st.process_tx_pattern(ScriptPattern::Pay2PublicKeyHash, 6, h32(0xb2), 1);
    assert!(st.n_tx_types.len() == 2, "C15:type_count_keys");
    assert!(st.n_tx_types.get(&ScriptPattern::Pay2PublicKeyHash) == Some(&3), "C15:type_count_p2pkh");
    assert!(st.n_tx_types.get(&ScriptPattern::Pay2ScriptHash) == Some(&1), "C15:type_count_p2sh");
    assert!(st.tx_first_occs.len() == 2, "C15:first_occurrence_keys");
    match st.tx_first_occs.get(&ScriptPattern::Pay2PublicKeyHash) {
        Some(o) => { assert!(o.0 == 5 && o.1.to_byte_array()[0] == 0xa1 && o.2 == 0, "C15:first_occurrence_p2pkh"); }
        None => { assert!(false, "C15:first_occurrence_p2pkh"); }
    }
    match st.tx_first_occs.get(&ScriptPattern::Pay2ScriptHash) {
        Some(o) => { assert!(o.0 == 5 && o.1.to_byte_array()[0] == 0xa1 && o.2 == 1, "C15:first_occurrence_p2sh"); }
        None => { assert!(false, "C15:first_occurrence_p2sh"); }
    }
    kani::cover!(true, "evaluated");
    core::mem::forget(st);
}
