//# target: src/blockchain/parser/index.rs
//# models: hashmap leveldb
// C04 fork_history: get_block_index over an active chain of two blocks (heights 0 and 1) plus one
// competitor record. Shape (concrete per instance): LevelDB key order of the competitor relative to
// the active block at height 1, and the competitor's height (1 = occupied, 2 = above the tip).
// Symbolic: all three hashes, the competitor's status byte within its kind, file numbers, offsets.
use crate::verif_models::leveldb as ldb;

// value: version height status ntx nfile ndatapos nundopos header(80)
fn put(i: usize, key: &[u8; 32], height: u8, status: u8, file: u8, pos: u8, prev: &[u8; 32]) {
    unsafe {
        ldb::KEYS.v[i][0] = b'b';
        let mut k = 0;
        while k < 32 { ldb::KEYS.v[i][1 + k] = key[k]; k += 1; }
        ldb::KEYLEN.v[i] = 33;
        let v = &mut ldb::VALS.v[i];
        v[0] = 1; v[1] = height; v[2] = status; v[3] = 1; v[4] = file; v[5] = pos; v[6] = 0;
        v[7] = 1; v[8] = 0; v[9] = 0; v[10] = 0;
        let mut k = 0;
        while k < 32 { v[11 + k] = prev[k]; k += 1; }
        ldb::VLEN.v[i] = 87;
    }
}
fn lt(a: &[u8; 32], b: &[u8; 32]) -> bool {
    let mut i = 0;
    while i < 32 { if a[i] != b[i] { return a[i] < b[i]; } i += 1; }
    false
}

/// $comp_first: the competitor's key sorts before the active block of height 1
/// $ch: competitor height (1 or 2); $data: competitor carries block data (status & HAVE_DATA)
macro_rules! fork_history {
    ($name:ident, $comp_first:expr, $ch:expr, $data:expr) => {
        #[kani::proof]
        #[kani::unwind(34)]
        fn $name() {
            let g: [u8; 32] = kani::any();  // active, height 0
            let a: [u8; 32] = kani::any();  // active, height 1 (tip)
            let s: [u8; 32] = kani::any();  // competitor
            let st: u8 = kani::any();
            kani::assume(st < 0x80);
            if $data {
                // stale sibling with data, failed block with data, or a reorged-out block whose status equals an active one's
                kani::assume(st & 8 != 0 && (st & 7) >= 3 && (st & 7) <= 5);
            } else {
                // header-only record (validity level <= VALID_TREE), optionally marked failed; no data, no undo
                kani::assume(st & 0x18 == 0 && (st & 7) >= 1 && (st & 7) <= 2);
            }
            let cf: u8 = kani::any();
            let cp: u8 = kani::any();
            kani::assume(cf < 0x80 && cp < 0x80 && cp != 100);
            // LevelDB order: g first (its relative position does not matter for heights 1/2), then competitor/active as per shape
            kani::assume(lt(&g, &a) && lt(&g, &s));
            if $comp_first { kani::assume(lt(&s, &a)); } else { kani::assume(lt(&a, &s)); }
            put(0, &g, 0, 29, 0, 8, &[0; 32]);
            if $comp_first {
                put(1, &s, $ch, st, cf, cp, &g);
                put(2, &a, 1, 29, 0, 100, &g);
            } else {
                put(1, &a, 1, 29, 0, 100, &g);
                put(2, &s, $ch, st, cf, cp, &g);
            }
            unsafe { ldb::N_REC.v = 3; }
            kani::cover!(st & 0x60 != 0, "competitor marked failed");
            kani::cover!(!$data || st == 29, "reorged-out block: same status as an active block");
            kani::cover!(!$data || st == 11, "never-connected sibling with data");
            let m = match get_block_index(Path::new("x")) {
                Ok(m) => m,
                Err(e) => { core::mem::forget(e); assert!(false, "C04:index_builds"); return; }
            };
            match m.get(&0) {
                Some(r) => { assert!(r.data_offset as u64 == 8, "C04:active_record_kept_at_height_0"); }
                None => { assert!(false, "C04:active_record_kept_at_height_0"); }
            }
            match m.get(&1) {
                Some(r) => {
                    assert!(r.data_offset as u64 == 100 && r.blk_index as u64 == 0, "C04:active_record_kept_at_occupied_height");
                    let hb = r.block_hash.to_byte_array();
                    let mut i = 0;
                    while i < 32 { assert!(hb[i] == a[i], "C04:active_record_kept_at_occupied_height"); i += 1; }
                }
                None => { assert!(false, "C04:active_record_kept_at_occupied_height"); }
            }
            assert!(m.get(&2).is_none(), "C04:no_record_above_the_active_tip");
            core::mem::forget(m);
        }
    };
}
//@ id=C04 tier=quick name=c04_nodata_first_at timeout=1800 role=fork_nodata bound=header-only/failed-without-data-competitor,key-before-active,occupied-height fn=get_block_index,BlockIndexRecord::from
fork_history!(c04_nodata_first_at, true, 1, false);
//@ id=C04 tier=quick name=c04_nodata_last_above timeout=1800 role=fork_nodata bound=header-only-competitor,key-after-active,above-the-tip
fork_history!(c04_nodata_last_above, false, 2, false);
//@ id=C04 tier=thorough name=c04_nodata_last_at timeout=1800 role=fork_nodata bound=header-only-competitor,key-after-active,occupied-height
fork_history!(c04_nodata_last_at, false, 1, false);
//@ id=C04 tier=thorough name=c04_nodata_first_above timeout=1800 role=fork_nodata bound=header-only-competitor,key-before-active,above-the-tip mem=24
fork_history!(c04_nodata_first_above, true, 2, false);
//@ id=C04 tier=quick name=c04_data_first_at timeout=1800 role=fork_data_before_at bound=data-bearing-competitor(stale/failed/reorged-out),key-before-active,occupied-height
fork_history!(c04_data_first_at, true, 1, true);
//@ id=C04 tier=quick name=c04_data_last_at timeout=1800 role=fork_data_after_at bound=data-bearing-competitor,key-after-active,occupied-height
fork_history!(c04_data_last_at, false, 1, true);
//@ id=C04 tier=quick name=c04_data_last_above timeout=1800 role=fork_data_above_tip bound=data-bearing-competitor,key-after-active,above-the-tip
fork_history!(c04_data_last_above, false, 2, true);
//@ id=C04 tier=thorough name=c04_data_first_above timeout=1800 role=fork_data_above_tip bound=data-bearing-competitor,key-before-active,above-the-tip
fork_history!(c04_data_first_above, true, 2, true);
