//# target: src/blockchain/parser/reader.rs
// C11: XorReader over seek_bufread::BufReader returns file[pos] ^ key[pos mod len] whatever the
// order and distance of seeks and wherever reads fall relative to key period and buffer.
use seek_bufread::BufReader as SBufReader;
use std::io::{Cursor, SeekFrom};

macro_rules! xor_window {
    ($name:ident, $klen:expr, $cap:expr, $d:expr, $unw:expr, $pairs:expr) => {
        #[kani::proof]
        #[kani::unwind($unw)]
        fn $name() {
            let data: [u8; $d] = kani::any();
            let key_arr: [u8; $klen] = kani::any();
            let inner = SBufReader::with_capacity($cap, Cursor::new(&data[..]));
            let mut r = XorReader::new(inner, Some(key_arr.to_vec()));
            let mut round = 0;
            while round < $pairs {
                let p: u64 = kani::any();
                kani::assume(p <= $d as u64);
                match r.seek(SeekFrom::Start(p)) {
                    Ok(np) => { assert!(np == p, "C11:seek_returns_requested_position"); }
                    Err(e) => { core::mem::forget(e); assert!(false, "C11:seek_ok"); return; }
                }
                let want: usize = kani::any();
                kani::assume(want <= 3);
                let mut b = [0u8; 3];
                let n = match r.read(&mut b[..want]) {
                    Ok(n) => n,
                    Err(e) => { core::mem::forget(e); assert!(false, "C11:read_ok"); return; }
                };
                let avail = $d - p as usize;
                assert!(n == if want < avail { want } else { avail }, "C11:read_length");
                let mut i = 0;
                while i < n {
                    let pos = p as usize + i;
                    assert!(b[i] == data[pos] ^ key_arr[pos % $klen], "C11:byte_is_file_xor_key_at_absolute_offset");
                    i += 1;
                }
                if round == 1 {
                    kani::cover!(n == 3 && p > 0 && ($klen == 1 || p % ($klen as u64) != 0), "second read at an offset that is not a multiple of the key length");
                }
                round += 1;
            }
            kani::cover!(key_arr[0] == 0, "zero key byte");
            core::mem::forget(r);
        }
    };
}

//@ id=C11 tier=quick name=c11_xor_k1_c4_d12 timeout=900 role=xor_window bound=key-1,buffer-4,file-12,2-seek+read-pairs fn=XorReader::read,XorReader::seek,seek_bufread::BufReader
xor_window!(c11_xor_k1_c4_d12, 1, 4, 12, 14, 2);
//@ id=C11 tier=quick name=c11_xor_k3_c4_d12 timeout=900 role=xor_window bound=key-3,buffer-4,file-12,2-pairs
xor_window!(c11_xor_k3_c4_d12, 3, 4, 12, 14, 2);
//@ id=C11 tier=quick name=c11_xor_k8_c5_d20 timeout=1500 role=xor_window bound=key-8,buffer-5,file-20,2-pairs
xor_window!(c11_xor_k8_c5_d20, 8, 5, 20, 22, 2);
//@ id=C11 tier=thorough name=c11_xor_k2_c1_d12 timeout=2400 role=xor_window bound=key-2,buffer-1,file-12,3-pairs
xor_window!(c11_xor_k2_c1_d12, 2, 1, 12, 14, 3);
//@ id=C11 tier=extra name=c11_xor_k8_c4_d20_3 timeout=3000 role=xor_window bound=key-8,buffer-4,file-20,3-pairs
xor_window!(c11_xor_k8_c4_d20_3, 8, 4, 20, 22, 3);
//@ id=C11 tier=extra name=c11_xor_k3_c16_d12 timeout=2400 role=xor_window bound=key-3,buffer-larger-than-file,file-12,3-pairs
xor_window!(c11_xor_k3_c16_d12, 3, 16, 12, 18, 3);
//@ id=C11 tier=thorough name=c11_xor_k3_c16_d12_2 timeout=2400 role=xor_window bound=key-3,buffer-larger-than-file,file-12,2-pairs
xor_window!(c11_xor_k3_c16_d12_2, 3, 16, 12, 18, 2);

// no key: plaintext passes through
//@ id=C11 tier=quick name=c11_nokey timeout=600 role=xor_nokey bound=no-key,buffer-4,file-12
#[kani::proof]
#[kani::unwind(14)]
fn c11_nokey() {
    let data: [u8; 12] = kani::any();
    let inner = SBufReader::with_capacity(4, Cursor::new(&data[..]));
    let mut r = XorReader::new(inner, None);
    let p: u64 = kani::any();
    kani::assume(p <= 12);
    match r.seek(SeekFrom::Start(p)) { Ok(_) => {}, Err(e) => { core::mem::forget(e); assert!(false, "C11:seek_ok"); return; } }
    let mut b = [0u8; 3];
    let n = match r.read(&mut b) { Ok(n) => n, Err(e) => { core::mem::forget(e); assert!(false, "C11:read_ok"); return; } };
    let mut i = 0;
    while i < n { assert!(b[i] == data[p as usize + i], "C11:no_key_is_plaintext"); i += 1; }
    kani::cover!(n == 3, "full read");
    core::mem::forget(r);
}

// far offsets: XorReader directly over a sparse model file, symbolic 64-bit position
macro_rules! xor_far {
    ($name:ident, $klen:expr) => {
        #[kani::proof]
        #[kani::unwind(12)]
        fn $name() {
            use crate::verif_models::fs as gfs;
            let key_arr: [u8; $klen] = kani::any();
            let salt: u8 = kani::any();
            unsafe { gfs::FUNC_ON.v = true; gfs::LEN64.v[1] = 1u64 << 62; gfs::FUNC_SALT.v[1] = salt; }
            let f = gfs::File::ghost(1);
            let mut r = XorReader::new(f, Some(key_arr.to_vec()));
            let p: u64 = kani::any();
            kani::assume(p < (1u64 << 62) - 8);
            match std::io::Seek::seek(&mut r, SeekFrom::Start(p)) { Ok(_) => {}, Err(e) => { core::mem::forget(e); assert!(false, "C11:seek_ok"); return; } }
            let mut b = [0u8; 2];
            let n = match std::io::Read::read(&mut r, &mut b) { Ok(n) => n, Err(e) => { core::mem::forget(e); assert!(false, "C11:read_ok"); return; } };
            assert!(n == 2, "C11:read_length");
            let mut i = 0u64;
            while i < 2 {
                let pos = p + i;
                assert!(b[i as usize] == gfs::func_byte(1, pos) ^ key_arr[(pos % $klen) as usize], "C11:far_offset_uses_key_at_absolute_offset");
                i += 1;
            }
            kani::cover!(p > (1u64 << 32), "offset beyond 4 GiB");
            kani::cover!(p > (1u64 << 40) && p % $klen == $klen - 1, "far offset at the last key byte (wraps inside the read)");
            core::mem::forget(r);
        }
    };
}
//@ id=C11 tier=quick name=c11_far_k8 timeout=900 role=xor_far bound=key-8,positions-to-2^62,direct-over-sparse-file-model
xor_far!(c11_far_k8, 8);
//@ id=C11 tier=quick name=c11_far_k3 timeout=1200 role=xor_far bound=key-3,positions-to-2^62
xor_far!(c11_far_k3, 3);
