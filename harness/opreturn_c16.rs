//# target: src/callbacks/opreturn.rs
//# needs: csvdump_c10.rs
// C16 print_lines: OpReturn::on_block prints exactly one line per output with a non-empty OP_RETURN
// payload, in (tx, output) order, with height, txid and payload; nothing for any other output.
// `println!` is routed (overlay, cfg(kani)) to verif_models::fmtm::println, which formats with the
// real core::fmt machinery into a ghost buffer.
use crate::verif_models::fmtm;
use crate::callbacks::csvdump::vk_csvdump_c10 as cx;
use crate::blockchain::proto::script::EvaluatedScript;

fn hexd(n: u8) -> u8 { if n < 10 { b'0' + n } else { b'a' + (n - 10) } }

//@ id=C16,C14 tier=extra name=c16_print_lines timeout=5400 role=print_lines bound=1-block,2-txs-x-2-outputs:(OP_RETURN-a,P2PKH),(OP_RETURN-empty,OP_RETURN-b) mem=20 fn=OpReturn::on_block
#[kani::proof]
#[kani::unwind(70)]
fn c16_print_lines() { print_lines_body(false) }
//@ id=C16,C14 tier=quick name=c16_print_lines_m timeout=900 role=print_lines bound=1-block,2-txs-x-2-outputs:(OP_RETURN-a,P2PKH),(OP_RETURN-empty,OP_RETURN-b),structured-format-model mem=20 fn=OpReturn::on_block
#[kani::proof]
#[kani::unwind(110)] // one printed line is 100 bytes
fn c16_print_lines_m() { print_lines_body(true) }
fn print_lines_body(structured: bool) {
    unsafe { fmtm::STRUCTURED.v = structured; }
    let mut b = cx::mk_block(2, 1, 2, false);
    b.txs[0].value.outputs[0].script = EvaluatedScript::new(None, ScriptPattern::OpReturn(String::from("a")));
    b.txs[0].value.outputs[1].script = EvaluatedScript::new(Some(String::from("x")), ScriptPattern::Pay2PublicKeyHash);
    b.txs[1].value.outputs[0].script = EvaluatedScript::new(None, ScriptPattern::OpReturn(String::new()));
    b.txs[1].value.outputs[1].script = EvaluatedScript::new(None, ScriptPattern::OpReturn(String::from("b")));
    let mut cb = OpReturn;
    match cb.on_block(&b, 7) { Ok(()) => {}, Err(e) => { core::mem::forget(e); assert!(false, "C16:on_block_ok"); } }
    // expected: two lines; txid of tx t is 32 bytes [t+1, 0, ...] displayed reversed
    unsafe {
        assert!(fmtm::LINES.v == 2, "C16:exactly_one_line_per_nonempty_opreturn_output");
        let mut k = 0;
        let mut at = 0usize;
        while k < 2 {
            let mut want = [0u8; 160];
            let mut n = 0;
            let head = b"height: 7         txid: ";
            let mut i = 0;
            while i < head.len() { want[n] = head[i]; n += 1; i += 1; }
            let mut i = 0;
            while i < 31 { want[n] = b'0'; want[n + 1] = b'0'; n += 2; i += 1; }
            want[n] = hexd(0); want[n + 1] = hexd(k as u8 + 1); n += 2;
            let mid = b"    data: ";
            let mut i = 0;
            while i < mid.len() { want[n] = mid[i]; n += 1; i += 1; }
            want[n] = if k == 0 { b'a' } else { b'b' }; n += 1;
            want[n] = b'\n'; n += 1;
            let mut i = 0;
            while i < n { assert!(fmtm::OUT.v[at + i] == want[i], "C16:line_carries_height_txid_and_payload_in_chain_order"); i += 1; }
            at += n;
            k += 1;
        }
        assert!(fmtm::OUT_LEN.v == at, "C16:nothing_else_is_printed");
    }
    kani::cover!(true, "evaluated");
    core::mem::forget(b);
}
