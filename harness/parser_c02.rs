//# target: src/blockchain/parser/mod.rs
//# models: hashmap process time hook_get_block fs
//# needs: chain_c02.rs reader_c01.rs
// C02 start_loop: exactly heights start..=max_height are delivered once, ascending; on_start /
// on_complete arguments. C09/C10 fail_stops: a read/verify error ends the run with exit(1) before
// on_complete (hence before any rename). ChainStorage::get_block is replaced (entry hook) by the
// contract proved by c02_get_block_one / c02_index_new.

use crate::blockchain::parser::chain::vk_chain_c02 as cx;
use crate::blockchain::parser::index::vk_index_c02 as ix;
use crate::verif_models::hooks;
use crate::verif_models::process as gproc;
use crate::BlockHeightRange;

static mut STARTED: crate::verif_models::Tg<u64> = crate::verif_models::Tg { v: u64::MAX, tag: 0x5eedc0de00000042 };
static mut N_START: crate::verif_models::Tg<usize> = crate::verif_models::Tg { v: 0, tag: 0x5eedc0de00000043 };
static mut N_BLOCKS: crate::verif_models::Tg<usize> = crate::verif_models::Tg { v: 0, tag: 0x5eedc0de00000044 };
static mut HEIGHTS: crate::verif_models::Tg<[u64; 8]> = crate::verif_models::Tg { v: [0; 8], tag: 0x5eedc0de00000045 };
static mut MARKS: crate::verif_models::Tg<[u32; 8]> = crate::verif_models::Tg { v: [0; 8], tag: 0x5eedc0de00000046 };
static mut N_COMPLETE: crate::verif_models::Tg<usize> = crate::verif_models::Tg { v: 0, tag: 0x5eedc0de00000047 };
static mut COMPLETED: crate::verif_models::Tg<u64> = crate::verif_models::Tg { v: u64::MAX, tag: 0x5eedc0de00000048 };

struct Rec;
impl Callback for Rec {
    fn build_subcommand() -> clap::Command where Self: Sized { clap::Command::new("rec") }
    fn new(_: &clap::ArgMatches) -> Result<Self> where Self: Sized { Ok(Rec) }
    fn on_start(&mut self, h: u64) -> Result<()> { unsafe { STARTED.v = h; N_START.v += 1; } Ok(()) }
    fn on_block(&mut self, b: &Block, h: u64) -> Result<()> {
        unsafe {
            if N_BLOCKS.v < 8 { HEIGHTS.v[N_BLOCKS.v] = h; MARKS.v[N_BLOCKS.v] = b.size; }
            N_BLOCKS.v += 1;
        }
        Ok(())
    }
    fn on_complete(&mut self, h: u64) -> Result<()> { unsafe { COMPLETED.v = h; N_COMPLETE.v += 1; } Ok(()) }
}

fn mk_parser(max_height: u64, start: u64) -> BlockchainParser {
    let options = ParserOptions {
        callback: Box::new(Rec), coin: ix::mk_coin(0, None), verify: false, blockchain_dir: std::path::PathBuf::new(),
        log_level_filter: log::LevelFilter::Off, range: BlockHeightRange { start, end: None },
    };
    BlockchainParser::new(options, cx::mk_storage_stub(max_height))
}

macro_rules! start_loop {
    ($name:ident, $mmax:expr, $unw:expr) => {
        #[kani::proof]
        #[kani::unwind($unw)]
            #[kani::stub(crate::blockchain::proto::script::eval_from_bytes, crate::blockchain::parser::reader::vk_reader_c01::stub_eval)]
            #[kani::stub(<bitcoin::hashes::sha256::HashEngine as bitcoin::hashes::HashEngine>::input, crate::verif_models::ghost::stub_engine_input)]
            #[kani::stub(<bitcoin::hashes::sha256d::Hash as bitcoin::hashes::Hash>::from_engine, crate::verif_models::ghost::stub_sha256d_fin)]
            #[kani::stub(<bitcoin::hashes::hash160::Hash as bitcoin::hashes::Hash>::from_engine, crate::verif_models::ghost::stub_hash160_fin)]
        fn $name() {
            let m: u64 = kani::any();
            kani::assume(m <= $mmax);
            let start: u64 = kani::any();
            kani::assume(start <= m + 1);
            unsafe { hooks::GB_STUB_ON.v = true; }
            let mut p = mk_parser(m, start);
            let r = p.start();
            assert!(r.is_ok(), "C02:run_succeeds");
            unsafe {
                assert!(N_START.v == 1 && STARTED.v == start, "C02:on_start_gets_start_height");
                let n = if start <= m { (m - start + 1) as usize } else { 0 };
                assert!(N_BLOCKS.v == n, "C02:exactly_the_heights_start_to_max_are_delivered");
                let mut i = 0;
                while i < n {
                    assert!(HEIGHTS.v[i] == start + i as u64, "C02:ascending_each_once");
                    assert!(MARKS.v[i] == (start + i as u64) as u32, "C02:block_of_its_own_height");
                    i += 1;
                }
                assert!(N_COMPLETE.v == 1, "C02:on_complete_once");
                if n > 0 { assert!(COMPLETED.v == m, "C02:on_complete_gets_last_processed_height"); }
            }
            kani::cover!(start == 0 && m == $mmax, "whole chain of maximal length");
            kani::cover!(start == m, "start at tip: one block");
            kani::cover!(start == m + 1, "start above tip: nothing");
            kani::cover!(m == 0, "single-block chain");
            core::mem::forget(r);
            core::mem::forget(p);
        }
    };
}
//@ id=C02 tier=quick name=c02_start_loop_m2 timeout=1500 role=start_loop bound=max_height<=2,start<=max+1 fn=BlockchainParser::start,BlockchainParser::on_block,BlockchainParser::on_complete
start_loop!(c02_start_loop_m2, 2, 6);
//@ id=C02 tier=thorough name=c02_start_loop_m4 timeout=3000 role=start_loop bound=max_height<=4,start<=max+1
start_loop!(c02_start_loop_m4, 4, 8);

// get_block answers None at the k-th call (a height missing from the index): the loop stops,
// on_complete gets the last delivered height.
//@ id=C02 tier=quick name=c02_start_none_at1 timeout=1500 role=start_loop_none bound=max_height-3,start-0,None-at-call-1
#[kani::proof]
#[kani::unwind(6)]
#[kani::stub(crate::blockchain::proto::script::eval_from_bytes, crate::blockchain::parser::reader::vk_reader_c01::stub_eval)]
#[kani::stub(<bitcoin::hashes::sha256::HashEngine as bitcoin::hashes::HashEngine>::input, crate::verif_models::ghost::stub_engine_input)]
#[kani::stub(<bitcoin::hashes::sha256d::Hash as bitcoin::hashes::Hash>::from_engine, crate::verif_models::ghost::stub_sha256d_fin)]
#[kani::stub(<bitcoin::hashes::hash160::Hash as bitcoin::hashes::Hash>::from_engine, crate::verif_models::ghost::stub_hash160_fin)]
fn c02_start_none_at1() {
    unsafe { hooks::GB_STUB_ON.v = true; hooks::GB_NONE_AT.v = 1; }
    let mut p = mk_parser(3, 0);
    let r = p.start();
    assert!(r.is_ok(), "C02:run_succeeds");
    unsafe {
        assert!(N_BLOCKS.v == 1 && HEIGHTS.v[0] == 0, "C02:stops_at_first_missing_height");
        assert!(N_COMPLETE.v == 1 && COMPLETED.v == 0, "C02:on_complete_gets_last_processed_height");
    }
    kani::cover!(true, "loop stopped by None");
    core::mem::forget(r);
    core::mem::forget(p);
}

// get_block answers Err at call k (unreadable block / failed verification): exit(1), no on_complete.
fn at_exit_check(code: i32) {
    unsafe {
        assert!(code == 1, "C10:read_error_exits_with_status_1");
        assert!(N_COMPLETE.v == 0, "C10:no_on_complete_after_a_read_error");
        assert!(crate::verif_models::fs::RENAMES.v == 0, "C10:no_final_named_file_after_a_read_error");
        assert!(N_BLOCKS.v == hooks::GB_ERR_AT.v, "C09:blocks_before_the_failing_height_were_delivered_only");
    }
}
macro_rules! fail_stops {
    ($name:ident, $k:expr) => {
        #[kani::proof]
        #[kani::unwind(6)]
            #[kani::stub(crate::blockchain::proto::script::eval_from_bytes, crate::blockchain::parser::reader::vk_reader_c01::stub_eval)]
            #[kani::stub(<bitcoin::hashes::sha256::HashEngine as bitcoin::hashes::HashEngine>::input, crate::verif_models::ghost::stub_engine_input)]
            #[kani::stub(<bitcoin::hashes::sha256d::Hash as bitcoin::hashes::Hash>::from_engine, crate::verif_models::ghost::stub_sha256d_fin)]
            #[kani::stub(<bitcoin::hashes::hash160::Hash as bitcoin::hashes::Hash>::from_engine, crate::verif_models::ghost::stub_hash160_fin)]
        fn $name() {
            unsafe { hooks::GB_STUB_ON.v = true; hooks::GB_ERR_AT.v = $k; gproc::AT_EXIT.v = Some(at_exit_check); }
            let start: u64 = kani::any();
            kani::assume(start <= 1);
            let mut p = mk_parser(3, start);
            kani::cover!(start == 1, "range starting above 0");
            let r = p.start();
            // reaching this point means the run did not exit
            assert!(false, "C09:error_in_get_block_must_exit_the_process");
            core::mem::forget(r);
            core::mem::forget(p);
        }
    };
}
//@ id=C09,C10 tier=quick name=c09_fail_stops_at0 timeout=1500 role=fail_stops bound=error-at-first-processed-height
fail_stops!(c09_fail_stops_at0, 0);
//@ id=C09,C10 tier=quick name=c09_fail_stops_at2 timeout=1500 role=fail_stops bound=error-at-third-processed-height
fail_stops!(c09_fail_stops_at2, 2);
