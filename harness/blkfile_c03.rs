//# target: src/blockchain/parser/blkfile.rs
//# models: hashmap fs
// C03: blk file naming, and read_block reads (size prefix, header) at the offset it is given,
// independent of the previous reader position. C10/C14: truncated files yield Err, never a panic.
use crate::verif_models::fs as gfs;
use crate::verif_models::ghost;
use crate::blockchain::proto::script;
use bitcoin::hashes::Hash as _;

pub fn mk_blkfile(id: u8) -> BlkFile {
    BlkFile::new(gfs::path_for(id as usize), None)
}
/// Stands in for the directory scan (real FS, not encoded): the data directory holds blk files 0 and 1.
pub fn stub_from_path(_p: &Path) -> Result<HashMap<u64, BlkFile>> {
    let mut m = HashMap::new();
    m.insert(0, mk_blkfile(0));
    m.insert(1, mk_blkfile(1));
    Ok(m)
}
pub fn is_open(b: &BlkFile) -> bool { b.reader.is_some() }
pub fn force_open(b: &mut BlkFile) {
    match b.open() { Ok(_) => {}, Err(e) => { core::mem::forget(e); } }
}

fn stub_eval(_b: &[u8], _v: u8) -> script::EvaluatedScript {
    script::EvaluatedScript::new(None, script::ScriptPattern::NotRecognised)
}

macro_rules! blk_name {
    ($name:ident, $n:expr) => {
        #[kani::proof]
        #[kani::unwind(24)]
        fn $name() {
            const N: usize = $n;
            let d: [u8; N] = kani::any();
            let mut name = [0u8; 7 + N];
            name[0] = b'b'; name[1] = b'l'; name[2] = b'k';
            let mut i = 0;
            while i < N { kani::assume(d[i] < 0x80); name[3 + i] = d[i]; i += 1; }
            name[3 + N] = b'.'; name[4 + N] = b'd'; name[5 + N] = b'a'; name[6 + N] = b't';
            // ASCII by assumption, hence valid UTF-8
            let s = unsafe { core::str::from_utf8_unchecked(&name[..]) };
            let got = BlkFile::parse_blk_index(s, "blk", ".dat");
            // reference: Some(decimal value) iff every byte is an ASCII digit (a leading '+', which
            // u64::from_str also accepts, is excluded from the claim by assumption)
            kani::assume(d[0] != b'+');
            let mut all = true;
            let mut val: u64 = 0;
            let mut i = 0;
            while i < N {
                if d[i] >= b'0' && d[i] <= b'9' { val = val * 10 + (d[i] - b'0') as u64; } else { all = false; }
                i += 1;
            }
            kani::cover!(all && d[0] == b'0', "zero padded number");
            kani::cover!(!all, "non-numeric name");
            if all {
                assert!(got == Some(val), "C03:blk_file_number_is_decimal_value_regardless_of_padding");
            } else {
                assert!(got.is_none(), "C03:non_numeric_name_is_not_a_blk_file");
            }
        }
    };
}
//@ id=C03 tier=quick name=c03_blk_name_1 timeout=900 role=blk_name bound=blk+1-ASCII-byte+.dat fn=BlkFile::parse_blk_index
blk_name!(c03_blk_name_1, 1);
//@ id=C03 tier=quick name=c03_blk_name_5 timeout=1500 role=blk_name bound=blk+5-ASCII-bytes+.dat(Core's-blkNNNNN.dat)
blk_name!(c03_blk_name_5, 5);
//@ id=C03 tier=thorough name=c03_blk_name_3 timeout=1500 role=blk_name bound=blk+3-ASCII-bytes+.dat
blk_name!(c03_blk_name_3, 3);

//@ id=C03 tier=quick name=c03_blk_name_other timeout=600 role=blk_name bound=foreign-prefixes-and-extensions fn=BlkFile::parse_blk_index
#[kani::proof]
#[kani::unwind(24)]
fn c03_blk_name_other() {
    assert!(BlkFile::parse_blk_index("rev00001.dat", "blk", ".dat").is_none(), "C03:rev_files_ignored");
    assert!(BlkFile::parse_blk_index("blk00001.bak", "blk", ".dat").is_none(), "C03:other_extension_ignored");
    assert!(BlkFile::parse_blk_index("xor.dat", "blk", ".dat").is_none(), "C03:xor_dat_ignored");
    assert!(BlkFile::parse_blk_index("blk.dat", "blk", ".dat").is_none(), "C03:empty_number_ignored");
    assert!(BlkFile::parse_blk_index("blk00000.dat", "blk", ".dat") == Some(0), "C03:blk00000");
    kani::cover!(true, "evaluated");
}

// read_at: ghost file of 100 symbolic bytes, XOR-ed with a symbolic 2-byte key; two reads of an 81-byte
// block (80-byte header + tx count 0) on ONE BlkFile at offsets that are concrete per instance
// (symbolic offsets into the 200-byte file did not finish in 30 min; offset-generic seek/read logic with
// symbolic positions is the C11 xor_window claim on small buffers). Buffer capacity = production 32 KiB.
macro_rules! read_at {
    ($name:ident, $o1:expr, $o2:expr) => {
        #[kani::proof]
        #[kani::unwind(104)]
        #[kani::stub(crate::blockchain::proto::script::eval_from_bytes, stub_eval)]
        #[kani::stub(<bitcoin::hashes::sha256::HashEngine as bitcoin::hashes::HashEngine>::input, ghost::stub_engine_input)]
        #[kani::stub(<bitcoin::hashes::sha256d::Hash as bitcoin::hashes::Hash>::from_engine, ghost::stub_sha256d_fin)]
        fn $name() {
            ghost::init(kani::any());
            let key: [u8; 2] = kani::any();
            const FL: usize = 100;
            let mut plain: [u8; FL] = kani::any();
            plain[$o1 + 80] = 0; // both blocks declare zero transactions
            plain[$o2 + 80] = 0;
            unsafe {
                let mut i = 0;
                while i < FL { gfs::DATA.v[3][i] = plain[i] ^ key[i % 2]; i += 1; }
                gfs::LEN.v[3] = FL;
            }
            let coin = CoinType { name: String::new(), magic: 0, version_id: 0x00, genesis_hash: bitcoin::hashes::sha256d::Hash::from_byte_array([0; 32]), aux_pow_activation_version: None, default_folder: PathBuf::new() };
            let mut bf = BlkFile::new(gfs::path_for(3), Some(key.to_vec()));
            let offs: [usize; 2] = [$o1, $o2];
            let mut r = 0;
            while r < 2 {
                let o = offs[r];
                match bf.read_block(o as u64, &coin) {
                    Ok(b) => {
                        let want_size = u32::from_le_bytes([plain[o - 4], plain[o - 3], plain[o - 2], plain[o - 1]]);
                        assert!(b.size == want_size, "C03:size_is_le_u32_before_the_offset");
                        assert!(b.header.value.version == u32::from_le_bytes([plain[o], plain[o + 1], plain[o + 2], plain[o + 3]]), "C03:header_read_at_offset");
                        assert!(b.header.value.nonce == u32::from_le_bytes([plain[o + 76], plain[o + 77], plain[o + 78], plain[o + 79]]), "C03:header_end_read_at_offset");
                        let ph = b.header.value.prev_hash.to_byte_array();
                        let mut i = 0;
                        while i < 32 { assert!(ph[i] == plain[o + 4 + i], "C03:header_prev_read_at_offset"); i += 1; }
                        assert!(b.txs.len() == 0 && b.tx_count.value == 0, "C03:tx_count_read_behind_header");
                        core::mem::forget(b);
                    }
                    Err(e) => { core::mem::forget(e); assert!(false, "C03:read_block_ok"); return; }
                }
                r += 1;
            }
            kani::cover!(key[0] != 0 && key[1] == 0, "key with a zero byte");
            unsafe { assert!(gfs::OPENS.v[3] == 1, "C17:file_opened_once_while_open"); }
            core::mem::forget(bf);
        }
    };
}
//@ id=C03,C11 tier=extra name=c03_read_at_fwd timeout=7200 role=read_at bound=ghost-file-100B,xor-key-2,reads-at-offsets-5-then-18(forward,odd-then-even-offset) mem=30 fn=BlkFile::read_block,BlkFile::open,XorReader::read,XorReader::seek,read_block,read_block_header
read_at!(c03_read_at_fwd, 5, 18);
//@ id=C03,C11 tier=extra name=c03_read_at_back timeout=7200 role=read_at bound=reads-at-offsets-17-then-8(backward-seek) mem=20
read_at!(c03_read_at_back, 17, 8);
//@ id=C03,C11 tier=extra name=c03_read_at_same timeout=1800 role=read_at bound=same-offset-twice mem=20
read_at!(c03_read_at_same, 9, 9);

// truncated file: the file ends at a symbolic byte inside [offset-4, offset+81): Err, no panic
//@ id=C10,C14 tier=extra name=c10_read_truncated timeout=5400 role=read_fault bound=ghost-file(<=120B)-truncated-at-any-length,block-at-offset-20 mem=20 fn=BlkFile::read_block,read_block,read_block_header
#[kani::proof]
#[kani::unwind(204)]
#[kani::stub(crate::blockchain::proto::script::eval_from_bytes, stub_eval)]
#[kani::stub(<bitcoin::hashes::sha256::HashEngine as bitcoin::hashes::HashEngine>::input, ghost::stub_engine_input)]
#[kani::stub(<bitcoin::hashes::sha256d::Hash as bitcoin::hashes::Hash>::from_engine, ghost::stub_sha256d_fin)]
fn c10_read_truncated() {
    ghost::init(kani::any());
    const FL: usize = 120;
    let plain: [u8; FL] = kani::any();
    let flen: usize = kani::any();
    kani::assume(flen <= FL);
    unsafe {
        let mut i = 0;
        while i < FL { gfs::DATA.v[2][i] = plain[i]; i += 1; }
        gfs::LEN.v[2] = flen;
    }
    let coin = CoinType { name: String::new(), magic: 0, version_id: 0x00, genesis_hash: bitcoin::hashes::sha256d::Hash::from_byte_array([0; 32]), aux_pow_activation_version: None, default_folder: PathBuf::new() };
    let mut bf = BlkFile::new(gfs::path_for(2), None);
    let o: u64 = 20;
    kani::assume(plain[o as usize + 80] == 0);
    let complete = (o as usize) + 81 <= flen;
    kani::cover!(!complete && flen == 0, "file emptied");
    kani::cover!(!complete && flen > o as usize + 10, "truncated inside the header");
    kani::cover!(!complete && flen < 16, "offset past end of file");
    kani::cover!(complete, "complete block");
    match bf.read_block(o, &coin) {
        Ok(b) => { assert!(complete, "C10:truncated_block_is_an_error_not_a_block"); core::mem::forget(b); }
        Err(e) => { assert!(!complete, "C10:complete_block_reads"); core::mem::forget(e); }
    }
    core::mem::forget(bf);
}

// missing file -> Err
//@ id=C10 tier=extra name=c10_read_missing timeout=3600 role=read_fault bound=blk-file-removed fn=BlkFile::read_block,BlkFile::open
#[kani::proof]
#[kani::unwind(40)]
#[kani::stub(crate::blockchain::proto::script::eval_from_bytes, stub_eval)]
#[kani::stub(<bitcoin::hashes::sha256::HashEngine as bitcoin::hashes::HashEngine>::input, ghost::stub_engine_input)]
#[kani::stub(<bitcoin::hashes::sha256d::Hash as bitcoin::hashes::Hash>::from_engine, ghost::stub_sha256d_fin)]
fn c10_read_missing() {
    unsafe { gfs::EXISTS.v[4] = false; }
    let coin = CoinType { name: String::new(), magic: 0, version_id: 0x00, genesis_hash: bitcoin::hashes::sha256d::Hash::from_byte_array([0; 32]), aux_pow_activation_version: None, default_folder: PathBuf::new() };
    let mut bf = BlkFile::new(gfs::path_for(4), None);
    match bf.read_block(8, &coin) {
        Ok(b) => { assert!(false, "C10:missing_file_is_an_error"); core::mem::forget(b); }
        Err(e) => { core::mem::forget(e); }
    }
    kani::cover!(true, "missing file path evaluated");
    core::mem::forget(bf);
}
