//# target: src/callbacks/balances.rs
//# models: fs hashmap
// C10 flush_before_rename (Balances), C08 aggregate.
use crate::verif_models::fs as gfs;
use crate::verif_models::fmtm;

fn mk_dump(cap: usize) -> Balances {
    Balances { dump_folder: PathBuf::from("d"), writer: BufWriter::with_capacity(cap, gfs::File::ghost(3)), unspents: HashMap::new(), start_height: 0, end_height: 0 }
}
fn key(b: u8) -> Vec<u8> {
    let mut k = vec![0u8; 36];
    k[0] = b;
    k
}

//@ id=C10 tier=quick name=c10_balances_flush timeout=1500 role=flush_before_rename bound=Balances,2-entries-2-addresses,buffer-4,any-write-fault-schedule fn=Balances::on_complete
#[kani::proof]
#[kani::unwind(14)]
fn c10_balances_flush() {
    unsafe { fmtm::CONST_ROWS = true; gfs::FAULT_AT = kani::any(); }
    let mut cb = mk_dump(4);
    cb.unspents.insert(key(1), common::UnspentValue { block_height: 1, value: 5, address: String::from("a") });
    cb.unspents.insert(key(2), common::UnspentValue { block_height: 1, value: 6, address: String::from("b") });
    match cb.on_complete(1) {
        Ok(()) => unsafe {
            assert!(!gfs::WRITE_FAILED, "C10:exit_0_implies_no_write_failed");
            assert!(gfs::RENAMES == 1, "C10:exit_0_implies_final_name");
            assert!(cb.writer.buffer().is_empty(), "C10:exit_0_implies_nothing_left_buffered");
            assert!(gfs::ACCEPTED[3] == gfs::SNAP_AT_FIRST_RENAME[3], "C10:no_bytes_written_after_the_rename");
            assert!(gfs::ACCEPTED[3] == 6, "C08:header_plus_one_row_per_address");
        },
        Err(e) => {
            core::mem::forget(e);
            assert!(unsafe { gfs::RENAMES } == 0, "C10:write_failure_leaves_no_final_named_file");
            kani::cover!(unsafe { gfs::WRITE_FAILED }, "write failed");
        }
    }
    kani::cover!(unsafe { !gfs::WRITE_FAILED && gfs::WRITE_CALLS >= 1 }, "successful run");
    core::mem::forget(cb);
}
