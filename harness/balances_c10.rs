//# target: src/callbacks/balances.rs
//# models: fs hashmap
// C10 flush_before_rename (Balances), C08 aggregate.
use crate::verif_models::fs as gfs;
use crate::verif_models::fmtm;

fn mk_dump(cap: usize) -> Balances {
    Balances { dump_folder: PathBuf::new() /* empty: [measured] PathBuf::join on a non-empty base runs std's component parser over heap bytes and dominates symbolic execution */, writer: BufWriter::with_capacity(cap, gfs::File::ghost(3)), unspents: HashMap::new(), start_height: 0, end_height: 0 }
}
fn key(b: u8) -> Vec<u8> {
    let mut k = vec![0u8; 36];
    k[0] = b;
    k
}

macro_rules! balances_flush {
    ($name:ident, $k:expr) => {
#[kani::proof]
#[kani::stub(std::io::Error::is_interrupted, crate::verif_models::fs::stub_not_interrupted)]
#[kani::unwind(7)] // small on purpose: io::Error/Box<dyn Error> drop glue and Error::cause recurse through vtables; CBMC unrolls that recursion to the bound (exponential)
fn $name() {
    const K: usize = $k;
    unsafe { fmtm::CONST_ROWS.v = true; if K < gfs::NSCHED { gfs::FAULT_AT.v[K] = true; } }
    let mut cb = mk_dump(4);
    // one entry: the per-address grouping is C08's claim (c08_aggregate); with two String-keyed entries the
    // model map's key comparisons made symbolic execution run out of memory under the fault schedule
    // value 0: an address owning only zero-value outputs is still listed once (C08)
    cb.unspents.insert(key(1), common::UnspentValue { block_height: 1, value: 0, address: String::from("a") });
    match cb.on_complete(1) {
        Ok(()) => unsafe {
            assert!(!gfs::WRITE_FAILED.v, "C10:exit_0_implies_no_write_failed");
            assert!(gfs::RENAMES.v == 1, "C10:exit_0_implies_final_name");
            assert!(cb.writer.buffer().is_empty(), "C10:exit_0_implies_nothing_left_buffered");
            assert!(gfs::ACCEPTED.v[3] == gfs::SNAP_AT_FIRST_RENAME.v[3], "C10:no_bytes_written_after_the_rename");
            assert!(gfs::ACCEPTED.v[3] == 4, "C08:header_plus_one_row_per_address");
        },
        Err(e) => {
            core::mem::forget(e);
            assert!(unsafe { gfs::RENAMES.v } == 0, "C10:write_failure_leaves_no_final_named_file");
            assert!(unsafe { gfs::WRITE_FAILED.v }, "C10:completion_fails_only_on_a_write_failure");
        }
    }
    kani::cover!(unsafe { gfs::WRITE_FAILED.v } == (K < gfs::NSCHED), "run ends as scheduled");
    core::mem::forget(cb);
}
    };
}
//@ id=C10,C08 tier=quick name=c10_balances_ok timeout=900 role=flush_before_rename bound=Balances,1-entry,buffer-4,fault-free fn=Balances::on_complete
balances_flush!(c10_balances_ok, usize::MAX);
//@ id=C10 tier=quick name=c10_balances_f0 timeout=900 role=flush_before_rename bound=Balances,1-entry,buffer-4,the-(only)-write-call-fails
balances_flush!(c10_balances_f0, 0);


// ---- C08 aggregate: one row per distinct address with the exact sum ---------------------------
// Three unspent entries with addresses from {"a","b"} (symbolic choice) and symbolic values <= 3, so
// every sum is a single decimal digit and the real formatting stays tractable. Row order follows the
// map model's slot order (the property only speaks about the row *set*; the oracle builds the rows in
// first-appearance order, which is what the model iterates in - on the real HashMap any order is fine).
//@ id=C08 tier=thorough name=c08_aggregate timeout=5400 role=aggregate bound=3-entries,addresses-from-{a,b},values<=3,real-formatting mem=20 fn=Balances::on_complete
#[kani::proof]
#[kani::unwind(24)]
fn c08_aggregate() {
    unsafe { gfs::LOG_CONTENT.v = true; }
    let which: [bool; 3] = kani::any(); // true = "a", false = "b"
    let v: [u64; 3] = kani::any();
    kani::assume(v[0] <= 3 && v[1] <= 3 && v[2] <= 3);
    let mut cb = mk_dump(64);
    let mut i = 0;
    while i < 3 {
        let a = if which[i] { String::from("a") } else { String::from("b") };
        cb.unspents.insert(key(i as u8 + 1), common::UnspentValue { block_height: 1, value: v[i], address: a });
        i += 1;
    }
    match cb.on_complete(1) {
        Ok(()) => {}
        Err(e) => { core::mem::forget(e); assert!(false, "C08:completion_ok"); return; }
    }
    // oracle
    let mut sum_a = 0u64;
    let mut sum_b = 0u64;
    let mut has_a = false;
    let mut has_b = false;
    let mut first_is_a = which[0];
    let mut i = 0;
    while i < 3 {
        if which[i] { sum_a += v[i]; has_a = true; } else { sum_b += v[i]; has_b = true; }
        i += 1;
    }
    let mut want = [0u8; 32];
    let head = b"address;balance\n";
    let mut n = 0;
    while n < head.len() { want[n] = head[n]; n += 1; }
    let mut round = 0;
    while round < 2 {
        let a_turn = (round == 0) == first_is_a;
        if a_turn && has_a { want[n] = b'a'; want[n + 1] = b';'; want[n + 2] = b'0' + sum_a as u8; want[n + 3] = b'\n'; n += 4; }
        if !a_turn && has_b { want[n] = b'b'; want[n + 1] = b';'; want[n + 2] = b'0' + sum_b as u8; want[n + 3] = b'\n'; n += 4; }
        round += 1;
    }
    unsafe {
        assert!(gfs::ACCEPTED.v[3] == n, "C08:header_plus_one_row_per_distinct_address");
        let mut i = 0;
        while i < n { assert!(gfs::WLOG.v[3][i] == want[i], "C08:balance_is_the_exact_sum_of_the_address_outputs"); i += 1; }
        assert!(gfs::RENAMES.v == 1, "C08:file_gets_final_name");
    }
    kani::cover!(has_a && has_b && sum_a == 6, "two addresses, one with two outputs summing to 6");
    kani::cover!(!has_b && sum_a == 9, "one address owning all three outputs");
    kani::cover!(has_a && sum_a == 0, "zero balance address is still listed once");
    core::mem::forget(cb);
}

// C02: file name carries start and last height
//@ id=C02,C08 tier=thorough name=c02_balances_name timeout=5400 role=names bound=Balances,start-12,last-345 mem=20 fn=Balances::on_start,Balances::on_complete
#[kani::proof]
#[kani::unwind(40)]
fn c02_balances_name() {
    unsafe { gfs::LOG_NAMES.v = true; }
    let mut cb = mk_dump(64);
    match cb.on_start(12) { Ok(()) => {}, Err(e) => { core::mem::forget(e); } }
    match cb.on_complete(345) { Ok(()) => {}, Err(e) => { core::mem::forget(e); assert!(false, "C02:completion_ok"); } }
    let want = b"balances-12-345.csv";
    unsafe {
        assert!(gfs::RENAMES.v == 1 && gfs::RENAME_TO_LEN.v[0] == want.len(), "C02:file_name_carries_start_and_last_height");
        let mut i = 0;
        while i < want.len() { assert!(gfs::RENAME_TO.v[0][i] == want[i], "C02:file_name_carries_start_and_last_height"); i += 1; }
    }
    kani::cover!(true, "evaluated");
    core::mem::forget(cb);
}
