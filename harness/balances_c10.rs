//# target: src/callbacks/balances.rs
//# models: fs hashmap
//# needs: unspent_c10.rs common_c07.rs
// C10 flush_before_rename (Balances), C08 aggregate.
use crate::verif_models::fs as gfs;
use crate::verif_models::fmtm;

fn mk_dump(cap: usize) -> Balances {
    unsafe {
        let mut x = core::mem::MaybeUninit::<Balances>::zeroed();
        let p = x.as_mut_ptr();
        core::ptr::write(core::ptr::addr_of_mut!((*p).dump_folder), PathBuf::new());
        core::ptr::write(core::ptr::addr_of_mut!((*p).writer), BufWriter::with_capacity(cap, gfs::File::ghost(3)));
        core::ptr::write(core::ptr::addr_of_mut!((*p).unspents), HashMap::new());
        core::ptr::write(core::ptr::addr_of_mut!((*p).start_height), 0u64);
        core::ptr::write(core::ptr::addr_of_mut!((*p).end_height), 0u64);
        x.assume_init()
    }
}
fn key(b: u8) -> Vec<u8> {
    let mut k = vec![0u8; 36];
    k[0] = b;
    k
}

macro_rules! balances_flush {
    ($name:ident, $k:expr) => {
#[kani::proof]
#[kani::stub(std::io::Error::is_interrupted, crate::verif_models::fs::stub_not_interrupted)]
#[kani::unwind(7)] // small on purpose: io::Error/Box<dyn Error> drop glue and Error::cause recurse through vtables; CBMC unrolls that recursion to the bound (exponential)
fn $name() {
    const K: usize = $k;
    unsafe { fmtm::CONST_ROWS.v = true; if K < gfs::NSCHED { gfs::FAULT_AT.v[K] = true; } }
    let mut cb = mk_dump(4);
    // one entry: the per-address grouping is C08's claim (c08_aggregate); with two String-keyed entries the
    // model map's key comparisons made symbolic execution run out of memory under the fault schedule
    // value 0: an address owning only zero-value outputs is still listed once (C08)
    cb.unspents.insert(key(1), common::UnspentValue { block_height: 1, value: 0, address: String::from("a") });
    match cb.on_complete(1) {
        Ok(()) => unsafe {
            assert!(!gfs::WRITE_FAILED.v, "C10:exit_0_implies_no_write_failed");
            assert!(gfs::RENAMES.v == 1, "C10:exit_0_implies_final_name");
            assert!(cb.writer.buffer().is_empty(), "C10:exit_0_implies_nothing_left_buffered");
            assert!(gfs::ACCEPTED.v[3] == gfs::SNAP_AT_FIRST_RENAME.v[3], "C10:no_bytes_written_after_the_rename");
            assert!(gfs::ACCEPTED.v[3] == 4, "C08:header_plus_one_row_per_address");
        },
        Err(e) => {
            core::mem::forget(e);
            assert!(unsafe { gfs::RENAMES.v } == 0, "C10:write_failure_leaves_no_final_named_file");
            assert!(unsafe { gfs::WRITE_FAILED.v }, "C10:completion_fails_only_on_a_write_failure");
        }
    }
    kani::cover!(unsafe { gfs::WRITE_FAILED.v } == (K < gfs::NSCHED), "run ends as scheduled");
    core::mem::forget(cb);
}
    };
}
//@ id=C10,C08 tier=quick name=c10_balances_ok timeout=900 role=flush_before_rename bound=Balances,1-entry,buffer-4,fault-free fn=Balances::on_complete
balances_flush!(c10_balances_ok, usize::MAX);
//@ id=C10 tier=quick name=c10_balances_f0 timeout=900 role=flush_before_rename bound=Balances,1-entry,buffer-4,the-(only)-write-call-fails
balances_flush!(c10_balances_f0, 0);


// ---- C08 aggregate: one row per distinct address with the exact sum ---------------------------
// Three unspent entries with addresses from {"a","b"} (symbolic choice) and symbolic values <= 3, so
// every sum is a single decimal digit and the real formatting stays tractable. Row order follows the
// map model's slot order (the property only speaks about the row *set*; the oracle builds the rows in
// first-appearance order, which is what the model iterates in - on the real HashMap any order is fine).
//@ id=C08 tier=extra name=c08_aggregate timeout=5400 role=aggregate bound=3-entries,addresses-from-{a,b},values<=3,real-formatting mem=20 fn=Balances::on_complete
#[kani::proof]
#[kani::unwind(30)]
fn c08_aggregate() { aggregate_body(false, None) }
//@ id=C08 tier=extra name=c08_aggregate_m timeout=5400 role=aggregate bound=3-entries,addresses-from-{a,b},values<=3,structured-format-model mem=20 fn=Balances::on_complete
#[kani::proof]
#[kani::unwind(30)]
fn c08_aggregate_m() { aggregate_body(true, None) }
//@ id=C08 tier=quick name=c08_aggregate_aba timeout=900 role=aggregate bound=3-entries,addresses-a,b,a(concrete),values<=3-symbolic,structured-format-model mem=20 fn=Balances::on_complete
#[kani::proof]
#[kani::unwind(30)]
fn c08_aggregate_aba() { aggregate_body(true, Some([true, false, true])) }
//@ id=C08 tier=quick name=c08_aggregate_aaa timeout=900 role=aggregate bound=3-entries,all-one-address,values<=3-symbolic,structured-format-model mem=20
#[kani::proof]
#[kani::unwind(30)]
fn c08_aggregate_aaa() { aggregate_body(true, Some([true, true, true])) }
fn aggregate_body(structured: bool, pattern: Option<[bool; 3]>) {
    unsafe { fmtm::STRUCTURED.v = structured; if structured { fmtm::MAX_DIGITS.v = 1; } }
    unsafe { gfs::LOG_CONTENT.v = true; }
    let which: [bool; 3] = match pattern { Some(p) => p, None => kani::any() }; // true = "a", false = "b"
    let v: [u64; 3] = kani::any();
    kani::assume(v[0] <= 3 && v[1] <= 3 && v[2] <= 3);
    let mut cb = mk_dump(64);
    let mut i = 0;
    while i < 3 {
        let a = if which[i] { String::from("a") } else { String::from("b") };
        cb.unspents.insert(key(i as u8 + 1), common::UnspentValue { block_height: 1, value: v[i], address: a });
        i += 1;
    }
    match cb.on_complete(1) {
        Ok(()) => {}
        Err(e) => { core::mem::forget(e); assert!(false, "C08:completion_ok"); return; }
    }
    // oracle
    let mut sum_a = 0u64;
    let mut sum_b = 0u64;
    let mut has_a = false;
    let mut has_b = false;
    let mut first_is_a = which[0];
    let mut i = 0;
    while i < 3 {
        if which[i] { sum_a += v[i]; has_a = true; } else { sum_b += v[i]; has_b = true; }
        i += 1;
    }
    let mut want = [0u8; 32];
    let head = b"address;balance\n";
    let mut n = 0;
    while n < head.len() { want[n] = head[n]; n += 1; }
    let mut round = 0;
    while round < 2 {
        let a_turn = (round == 0) == first_is_a;
        if a_turn && has_a { want[n] = b'a'; want[n + 1] = b';'; want[n + 2] = b'0' + sum_a as u8; want[n + 3] = b'\n'; n += 4; }
        if !a_turn && has_b { want[n] = b'b'; want[n + 1] = b';'; want[n + 2] = b'0' + sum_b as u8; want[n + 3] = b'\n'; n += 4; }
        round += 1;
    }
    unsafe {
        assert!(gfs::ACCEPTED.v[3] == n, "C08:header_plus_one_row_per_distinct_address");
        let mut i = 0;
        while i < n { assert!(gfs::WLOG.v[3][i] == want[i], "C08:balance_is_the_exact_sum_of_the_address_outputs"); i += 1; }
        assert!(gfs::RENAMES.v == 1, "C08:file_gets_final_name");
    }
    kani::cover!(!(has_a && has_b) || sum_a == 6 || (pattern.is_some() && !(which[0] && which[2])), "two addresses, one with two outputs summing to 6");
    kani::cover!(has_b || sum_a == 9, "one address owning all three outputs");
    kani::cover!(has_a && sum_a == 0, "zero balance address is still listed once");
    core::mem::forget(cb);
}

// C02: file name carries start and last height
//@ id=C02,C08 tier=extra name=c02_balances_name timeout=5400 role=names bound=Balances,start-12,last-345 mem=20 fn=Balances::on_start,Balances::on_complete
#[kani::proof]
#[kani::unwind(40)]
fn c02_balances_name() { balances_name_body(false) }
//@ id=C02,C08 tier=quick name=c02_balances_name_m timeout=900 role=names bound=Balances,start-12,last-345,structured-format-model mem=20 fn=Balances::on_start,Balances::on_complete
#[kani::proof]
#[kani::unwind(40)]
fn c02_balances_name_m() { balances_name_body(true) }
fn balances_name_body(structured: bool) {
    unsafe { fmtm::STRUCTURED.v = structured; if structured { fmtm::MAX_DIGITS.v = 3; } }
    unsafe { gfs::LOG_NAMES.v = true; }
    let mut cb = mk_dump(64);
    match cb.on_start(12) { Ok(()) => {}, Err(e) => { core::mem::forget(e); } }
    match cb.on_complete(345) { Ok(()) => {}, Err(e) => { core::mem::forget(e); assert!(false, "C02:completion_ok"); } }
    let want = b"balances-12-345.csv";
    unsafe {
        assert!(gfs::RENAMES.v == 1 && gfs::RENAME_TO_LEN.v[0] == want.len(), "C02:file_name_carries_start_and_last_height");
        let mut i = 0;
        while i < want.len() { assert!(gfs::RENAME_TO.v[0][i] == want[i], "C02:file_name_carries_start_and_last_height"); i += 1; }
    }
    kani::cover!(true, "evaluated");
    core::mem::forget(cb);
}

// ---- C08 same_set: Balances::on_block and UnspentCsvDump::on_block leave the same unspent set ----------
//@ id=C08,C07 tier=quick name=c08_same_set timeout=1800 role=same_set bound=1-block,2-txs(2+1-outputs),symbolic-values/addresses/spend-outpoint fn=Balances::on_block,UnspentCsvDump::on_block,remove_unspents,insert_unspents mem=20
#[kani::proof]
#[kani::unwind(40)]
fn c08_same_set() {
    use crate::callbacks::common::vk_common_c07 as cm;
    use crate::callbacks::unspentcsvdump::vk_unspent_c10 as ux;
    use crate::blockchain::proto::header::BlockHeader;
    use crate::blockchain::proto::varuint::VarUint;
    use crate::blockchain::proto::Hashed;
    use bitcoin::hashes::{sha256d, Hash};
    let v: [u64; 3] = kani::any();
    let a: [u8; 3] = kani::any();
    kani::assume(a[0] < 3 && a[1] < 3 && a[2] < 3);
    let sp_first: u8 = kani::any();
    let sp_ix: u32 = kani::any();
    let id1 = [1u8; 32];
    let id2 = [2u8; 32];
    let mut sp = [1u8; 32];
    sp[0] = sp_first; // == 1: an output of tx1, otherwise an outpoint unknown to the range
    let z = sha256d::Hash::all_zeros();
    let mk = |a: &[u8; 3], v: &[u64; 3]| -> Block {
        let tx1 = cm::mk_htx(id1, vec![cm::mk_in([9u8; 32], 7)], vec![cm::mk_out(v[0], a[0]), cm::mk_out(v[1], a[1])]);
        let tx2 = cm::mk_htx(id2, vec![cm::mk_in(sp, sp_ix)], vec![cm::mk_out(v[2], a[2])]);
        Block { size: 0, header: Hashed { hash: z, value: BlockHeader { version: 1, prev_hash: z, merkle_root: z, timestamp: 0, bits: 0, nonce: 0 } },
                aux_pow_extension: None, tx_count: VarUint::from(2u8), txs: vec![tx1, tx2] }
    };
    let block = mk(&a, &v);
    let mut bal = mk_dump(64);
    let mut uns = ux::mk_dump(64);
    match bal.on_block(&block, 9) { Ok(()) => {}, Err(e) => { core::mem::forget(e); assert!(false, "C08:on_block_ok"); } }
    match uns.on_block(&block, 9) { Ok(()) => {}, Err(e) => { core::mem::forget(e); assert!(false, "C08:on_block_ok"); } }
    assert!(bal.unspents.len() == ux::unspent_len(&uns), "C08:balances_and_unspent_dump_hold_the_same_outputs");
    let keys = [cm::key_of(&id1, 0), cm::key_of(&id1, 1), cm::key_of(&id2, 0)];
    let mut k = 0;
    while k < 3 {
        let b = bal.unspents.get(&keys[k]).map(|u| (u.block_height, u.value, u.address.as_bytes()[0]));
        let u = ux::unspent_get(&uns, &keys[k]);
        assert!(b == u, "C08:balances_and_unspent_dump_hold_the_same_outputs");
        k += 1;
    }
    // and the set is the C07 set: tx1 outputs unless address-less or spent by tx2; tx2's output unless address-less
    let spent0 = sp_first == 1 && sp_ix == 0;
    let spent1 = sp_first == 1 && sp_ix == 1;
    assert!(bal.unspents.get(&keys[0]).is_some() == (a[0] != 0 && !spent0), "C07:unspent_address_bearing_output_is_listed");
    assert!(bal.unspents.get(&keys[1]).is_some() == (a[1] != 0 && !spent1), "C07:unspent_address_bearing_output_is_listed");
    assert!(bal.unspents.get(&keys[2]).is_some() == (a[2] != 0), "C07:unspent_address_bearing_output_is_listed");
    kani::cover!(spent1 && a[1] != 0, "in-block spend of the second output");
    kani::cover!(a[0] == 0 && a[1] != 0, "address-less output before an address-bearing one");
    kani::cover!(sp_first != 1, "spend of an unknown outpoint");
    core::mem::forget(bal); core::mem::forget(uns); core::mem::forget(block); core::mem::forget(keys);
}
