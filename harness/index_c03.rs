//# target: src/blockchain/parser/index.rs
//# models: hashmap leveldb
// C03: Core VarInt decoding, index record field order, key filter of the LevelDB scan.

use crate::verif_models::leveldb as ldb;

#[derive(Clone, Copy, PartialEq)]
enum RefVar { Ok(u64, usize), Truncated, Overflow }

/// Bitcoin Core's ReadVarInt (serialize.h), on the first `len` bytes of `buf` starting at `at`.
fn ref_varint(buf: &[u8], at: usize, len: usize) -> RefVar {
    let mut n: u64 = 0;
    let mut i = at;
    loop {
        if i >= len { return RefVar::Truncated; }
        let ch = buf[i];
        i += 1;
        if n > (u64::MAX >> 7) { return RefVar::Overflow; }
        n = (n << 7) | (ch & 0x7f) as u64;
        if ch & 0x80 != 0 {
            if n == u64::MAX { return RefVar::Overflow; }
            n += 1;
        } else {
            return RefVar::Ok(n, i - at);
        }
    }
}

//@ id=C03 tier=quick name=c03_core_varint timeout=600 role=core_varint bound=any<=10-bytes,any-length,all-widths-to-u64 fn=read_varint
#[kani::proof]
#[kani::unwind(12)]
fn c03_core_varint() {
    let buf: [u8; 10] = kani::any();
    let len: usize = kani::any();
    kani::assume(len <= 10);
    let rv = ref_varint(&buf, 0, len);
    kani::cover!(matches!(rv, RefVar::Ok(v, 1) if v == 0x7f), "one-byte maximum");
    kani::cover!(matches!(rv, RefVar::Ok(v, 2) if v == 0x80), "two-byte minimum (carry)");
    kani::cover!(matches!(rv, RefVar::Ok(v, _) if v > u32::MAX as u64), "beyond 4 GiB");
    kani::cover!(matches!(rv, RefVar::Ok(v, 10) if v == u64::MAX), "u64 maximum in 10 bytes");
    kani::cover!(rv == RefVar::Truncated && len == 3, "truncated after 3 continuation bytes");
    match rv {
        RefVar::Ok(v, used) => {
            let mut c = Cursor::new(&buf[..len]);
            match read_varint(&mut c) {
                Ok(got) => {
                    assert!(got == v, "C03:varint_value_equals_core_reference");
                    assert!(c.position() as usize == used, "C03:varint_consumes_exactly_its_bytes");
                }
                Err(e) => { core::mem::forget(e); assert!(false, "C03:varint_decodes_wellformed_input"); }
            }
        }
        RefVar::Truncated => {
            let mut c = Cursor::new(&buf[..len]);
            match read_varint(&mut c) {
                Ok(_) => { assert!(false, "C03:varint_truncated_is_error"); }
                Err(e) => { core::mem::forget(e); }
            }
        }
        // values beyond u64: the code aborts ("size too large"); never a wrong value. Outside the claim.
        RefVar::Overflow => {}
    }
}

// record_fields: six VarInts of concrete widths (shape), symbolic content. A width-w VarInt has the
// continuation bit set on its first w-1 bytes and clear on the last.
macro_rules! record_fields {
    ($name:ident, [$w0:expr, $w1:expr, $w2:expr, $w3:expr, $w4:expr, $w5:expr]) => {
        #[kani::proof]
        #[kani::unwind(12)]
        fn $name() {
            const W: [usize; 6] = [$w0, $w1, $w2, $w3, $w4, $w5];
            const TOTAL: usize = $w0 + $w1 + $w2 + $w3 + $w4 + $w5;
            let key: [u8; 32] = kani::any();
            let mut val: [u8; TOTAL] = kani::any();
            let mut f = [0u64; 6];
            let mut at = 0usize;
            let mut k = 0;
            while k < 6 {
                let mut j = 0;
                while j < W[k] {
                    if j + 1 < W[k] { val[at + j] |= 0x80; } else { val[at + j] &= 0x7f; }
                    j += 1;
                }
                match ref_varint(&val, at, TOTAL) {
                    RefVar::Ok(v, used) => { assert!(used == W[k], "verif model: width"); f[k] = v; }
                    _ => { kani::assume(false); } // 10-byte encodings above u64::MAX: outside the claim
                }
                at += W[k];
                k += 1;
            }
            kani::cover!(W[5] < 5 || f[5] > u32::MAX as u64, "data offset beyond 4 GiB");
            kani::cover!(W[4] < 5 || f[4] > u32::MAX as u64, "file number beyond 32 bit");
            match BlockIndexRecord::from(&key, &val) {
                Ok(r) => {
                    assert!(r.version as u64 == f[0], "C03:record_field_version");
                    assert!(r.height as u64 == f[1], "C03:record_field_height");
                    assert!(r.status as u64 == f[2], "C03:record_field_status");
                    assert!(r.tx_count as u64 == f[3], "C03:record_field_txcount");
                    assert!(r.blk_index as u64 == f[4], "C03:record_field_file_number");
                    assert!(r.data_offset as u64 == f[5], "C03:record_field_data_offset");
                    // loop-free comparison (keeps the unwind bound at the VarInt width)
                    let hb = r.block_hash.to_byte_array();
                    let q = |b: &[u8; 32], o: usize| u64::from_le_bytes([b[o], b[o + 1], b[o + 2], b[o + 3], b[o + 4], b[o + 5], b[o + 6], b[o + 7]]);
                    assert!(q(&hb, 0) == q(&key, 0) && q(&hb, 8) == q(&key, 8) && q(&hb, 16) == q(&key, 16) && q(&hb, 24) == q(&key, 24), "C03:record_hash_is_key");
                }
                Err(e) => { core::mem::forget(e); assert!(false, "C03:record_decodes"); }
            }
        }
    };
}
//@ id=C03 tier=quick name=c03_record_w1 timeout=900 role=record_fields bound=six-1-byte-varints fn=BlockIndexRecord::from,read_varint
record_fields!(c03_record_w1, [1, 1, 1, 1, 1, 1]);
//@ id=C03 tier=quick name=c03_record_wmix timeout=1200 role=record_fields bound=varint-widths-4,3,1,2,2,5(offset-beyond-4GiB)
record_fields!(c03_record_wmix, [4, 3, 1, 2, 2, 5]);
//@ id=C03 tier=quick name=c03_record_wide timeout=1800 role=record_fields bound=varint-widths-5,4,2,3,9,9(64-bit-file-number-and-offset)
record_fields!(c03_record_wide, [5, 4, 2, 3, 9, 9]);
//@ id=C03 tier=thorough name=c03_record_w10 timeout=2400 role=record_fields bound=varint-widths-1,3,1,1,10,10(full-u64)
record_fields!(c03_record_w10, [1, 3, 1, 1, 10, 10]);

// LevelDB scan: three entries, each symbolically a block record ('b' key) or a foreign key whose
// value cannot be parsed (empty): only 'b' keys contribute, others are never parsed.
fn put_simple(i: usize, first: u8, height: u8, status: u8, file: u8, pos: u8, parseable: bool) {
    unsafe {
        ldb::KEYS.v[i][0] = first;
        ldb::KEYS.v[i][1] = i as u8 + 1;
        ldb::KEYLEN.v[i] = 33;
        let v = &mut ldb::VALS.v[i];
        v[0] = 1; v[1] = height; v[2] = status; v[3] = 1; v[4] = file; v[5] = pos;
        ldb::VLEN.v[i] = if parseable { 6 } else { 0 };
    }
}

macro_rules! index_scan {
    ($name:ident, [$b0:expr, $b1:expr, $b2:expr]) => {
        #[kani::proof]
        #[kani::unwind(8)]
        fn $name() {
            const ISB: [bool; 3] = [$b0, $b1, $b2];
            let foreign: [u8; 3] = kani::any();
            let pos: [u8; 3] = kani::any();
            let file: [u8; 3] = kani::any();
            let mut i = 0;
            while i < 3 {
                kani::assume(pos[i] < 0x80 && file[i] < 0x80 && foreign[i] != b'b');
                let first = if ISB[i] { b'b' } else { foreign[i] };
                put_simple(i, first, i as u8, 29, file[i], pos[i], ISB[i]);
                i += 1;
            }
            unsafe { ldb::N_REC.v = 3; }
            kani::cover!(foreign[0] == b'f' || foreign[1] == b'l' || foreign[2] == b'R', "Core's other key kinds (f, l, R)");
            kani::cover!(foreign[1] == b'B' || foreign[1] == b'F', "flag / best-block keys");
            match get_block_index(Path::new("x")) {
                Ok(m) => {
                    let mut i = 0;
                    while i < 3 {
                        let r = m.get(&(i as u64));
                        if ISB[i] {
                            match r {
                                Some(r) => { assert!(r.blk_index as u64 == file[i] as u64 && r.data_offset as u64 == pos[i] as u64, "C03:indexed_record_names_its_file_and_offset"); }
                                None => { assert!(false, "C03:block_record_indexed"); }
                            }
                        } else {
                            assert!(r.is_none(), "C03:foreign_key_ignored");
                        }
                        i += 1;
                    }
                    core::mem::forget(m);
                }
                Err(e) => { core::mem::forget(e); assert!(false, "C03:foreign_keys_never_parsed"); }
            }
        }
    };
}
//@ id=C03 tier=quick name=c03_index_scan_bfb timeout=1500 role=index_scan bound=3-entries:block,foreign(symbolic-key-byte,unparseable-value),block fn=get_block_index,is_block_index_record,BlockIndexRecord::from
index_scan!(c03_index_scan_bfb, [true, false, true]);
//@ id=C03 tier=quick name=c03_index_scan_fbf timeout=1500 role=index_scan bound=3-entries:foreign,block,foreign
index_scan!(c03_index_scan_fbf, [false, true, false]);
//@ id=C03 tier=thorough name=c03_index_scan_fff timeout=1500 role=index_scan bound=3-foreign-entries
index_scan!(c03_index_scan_fff, [false, false, false]);
