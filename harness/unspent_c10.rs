//# target: src/callbacks/unspentcsvdump.rs
//# models: fs hashmap
// C10 flush_before_rename (UnspentCsvDump), C07 unspent_rows, C02 name.
use crate::verif_models::fs as gfs;
use crate::verif_models::fmtm;

fn mk_dump(cap: usize) -> UnspentCsvDump {
    UnspentCsvDump { dump_folder: PathBuf::from("d"), writer: BufWriter::with_capacity(cap, gfs::File::ghost(3)), unspents: HashMap::new(), start_height: 0, tx_count: 0, in_count: 0, out_count: 0 }
}
fn key(b: u8, idx: u32) -> Vec<u8> {
    let mut k = vec![0u8; 36];
    k[0] = b;
    let ib = idx.to_le_bytes();
    k[32] = ib[0]; k[33] = ib[1]; k[34] = ib[2]; k[35] = ib[3];
    k
}

macro_rules! flush_before_rename {
    ($name:ident, $entries:expr) => {
        #[kani::proof]
        #[kani::unwind(14)]
        fn $name() {
            unsafe { fmtm::CONST_ROWS = true; gfs::FAULT_AT = kani::any(); }
            let mut cb = mk_dump(4);
            let mut i = 0u8;
            while i < $entries {
                cb.unspents.insert(key(i + 1, i as u32), common::UnspentValue { block_height: 1, value: 5, address: String::from("a") });
                i += 1;
            }
            match cb.on_complete(1) {
                Ok(()) => unsafe {
                    assert!(!gfs::WRITE_FAILED, "C10:exit_0_implies_no_write_failed");
                    assert!(gfs::RENAMES == 1, "C10:exit_0_implies_final_name");
                    assert!(cb.writer.buffer().is_empty(), "C10:exit_0_implies_nothing_left_buffered");
                    assert!(gfs::ACCEPTED[3] == gfs::SNAP_AT_FIRST_RENAME[3], "C10:no_bytes_written_after_the_rename");
                    assert!(gfs::ACCEPTED[3] == 2 * (1 + $entries), "C07:header_plus_one_row_per_entry");
                },
                Err(e) => {
                    core::mem::forget(e);
                    assert!(unsafe { gfs::RENAMES } == 0, "C10:write_failure_leaves_no_final_named_file");
                    kani::cover!(unsafe { gfs::WRITE_FAILED }, "write failed");
                }
            }
            kani::cover!(unsafe { !gfs::WRITE_FAILED && gfs::WRITE_CALLS >= 1 }, "successful run");
            core::mem::forget(cb);
        }
    };
}
//@ id=C10,C07 tier=quick name=c10_unspent_flush_2 timeout=1500 role=flush_before_rename bound=UnspentCsvDump,2-entries,buffer-4,any-write-fault-schedule fn=UnspentCsvDump::on_complete
flush_before_rename!(c10_unspent_flush_2, 2);
//@ id=C10,C07 tier=thorough name=c10_unspent_flush_0 timeout=1500 role=flush_before_rename bound=UnspentCsvDump,0-entries(header-only)
flush_before_rename!(c10_unspent_flush_0, 0);
