//# target: src/callbacks/unspentcsvdump.rs
//# models: fs hashmap
// C10 flush_before_rename (UnspentCsvDump), C07 unspent_rows, C02 name.
use crate::verif_models::fs as gfs;
use crate::verif_models::fmtm;

pub fn mk_dump(cap: usize) -> UnspentCsvDump {
    unsafe {
        let mut x = core::mem::MaybeUninit::<UnspentCsvDump>::zeroed();
        let p = x.as_mut_ptr();
        core::ptr::write(core::ptr::addr_of_mut!((*p).dump_folder), PathBuf::new());
        core::ptr::write(core::ptr::addr_of_mut!((*p).writer), BufWriter::with_capacity(cap, gfs::File::ghost(3)));
        core::ptr::write(core::ptr::addr_of_mut!((*p).unspents), HashMap::new());
        core::ptr::write(core::ptr::addr_of_mut!((*p).start_height), 0u64);
        core::ptr::write(core::ptr::addr_of_mut!((*p).tx_count), 0u64);
        core::ptr::write(core::ptr::addr_of_mut!((*p).in_count), 0u64);
        core::ptr::write(core::ptr::addr_of_mut!((*p).out_count), 0u64);
        x.assume_init()
    }
}
pub fn unspent_len(d: &UnspentCsvDump) -> usize { d.unspents.len() }
/// (height, value, first address byte) of the entry with this key
pub fn unspent_get(d: &UnspentCsvDump, k: &Vec<u8>) -> Option<(u64, u64, u8)> {
    d.unspents.get(k).map(|u| (u.block_height, u.value, u.address.as_bytes()[0]))
}
fn key(b: u8, idx: u32) -> Vec<u8> {
    let mut k = vec![0u8; 36];
    k[0] = b;
    let ib = idx.to_le_bytes();
    k[32] = ib[0]; k[33] = ib[1]; k[34] = ib[2]; k[35] = ib[3];
    k
}

macro_rules! flush_before_rename {
    ($name:ident, $entries:expr, $k:expr) => {
        #[kani::proof]
        #[kani::stub(std::io::Error::is_interrupted, crate::verif_models::fs::stub_not_interrupted)]
#[kani::unwind(7)] // small on purpose: io::Error/Box<dyn Error> drop glue and Error::cause recurse through vtables; CBMC unrolls that recursion to the bound (exponential)
        fn $name() {
            const K: usize = $k;
            unsafe { fmtm::CONST_ROWS.v = true; if K < gfs::NSCHED { gfs::FAULT_AT.v[K] = true; } }
            let mut cb = mk_dump(4);
            let mut i = 0u8;
            while i < $entries {
                cb.unspents.insert(key(i + 1, i as u32), common::UnspentValue { block_height: 1, value: 5, address: String::from("a") });
                i += 1;
            }
            match cb.on_complete(1) {
                Ok(()) => unsafe {
                    assert!(!gfs::WRITE_FAILED.v, "C10:exit_0_implies_no_write_failed");
                    assert!(gfs::RENAMES.v == 1, "C10:exit_0_implies_final_name");
                    assert!(cb.writer.buffer().is_empty(), "C10:exit_0_implies_nothing_left_buffered");
                    assert!(gfs::ACCEPTED.v[3] == gfs::SNAP_AT_FIRST_RENAME.v[3], "C10:no_bytes_written_after_the_rename");
                    assert!(gfs::ACCEPTED.v[3] == 2 * (1 + $entries), "C07:header_plus_one_row_per_entry");
                },
                Err(e) => {
                    core::mem::forget(e);
                    assert!(unsafe { gfs::RENAMES.v } == 0, "C10:write_failure_leaves_no_final_named_file");
                    assert!(unsafe { gfs::WRITE_FAILED.v }, "C10:completion_fails_only_on_a_write_failure");
                }
            }
            kani::cover!(unsafe { gfs::WRITE_FAILED.v } == (K < gfs::NSCHED), "run ends as scheduled");
            core::mem::forget(cb);
        }
    };
}
//@ id=C10,C07 tier=quick name=c10_unspent_ok timeout=900 role=flush_before_rename bound=UnspentCsvDump,1-entry,buffer-4,fault-free fn=UnspentCsvDump::on_complete
flush_before_rename!(c10_unspent_ok, 1, usize::MAX);
//@ id=C10,C07 tier=quick name=c10_unspent_f0 timeout=900 role=flush_before_rename bound=UnspentCsvDump,1-entry,buffer-4,the-(only)-write-call-fails
flush_before_rename!(c10_unspent_f0, 1, 0);
//@ id=C10,C07 tier=thorough name=c10_unspent_0_ok timeout=900 role=flush_before_rename bound=UnspentCsvDump,0-entries(header-only),fault-free
flush_before_rename!(c10_unspent_0_ok, 0, usize::MAX);

// C02: file name; C07 unspent_rows: row content with real formatting (one entry, symbolic small index)
//@ id=C02,C07 tier=extra name=c07_unspent_row timeout=5400 role=unspent_rows bound=1-entry,index<10-symbolic,height/value-single-digit,start-3,last-5 mem=20 fn=UnspentCsvDump::on_complete,UnspentCsvDump::on_start
#[kani::proof]
#[kani::unwind(120)]
fn c07_unspent_row() { unspent_row_body(false) }
//@ id=C02,C07 tier=quick name=c07_unspent_row_m timeout=900 role=unspent_rows bound=1-entry,index<10-symbolic,height/value-single-digit,start-3,last-5,structured-format-model mem=20 fn=UnspentCsvDump::on_complete,UnspentCsvDump::on_start
#[kani::proof]
#[kani::unwind(120)] // header 35 + row 73 bytes compared in one loop
fn c07_unspent_row_m() { unspent_row_body(true) }
fn unspent_row_body(structured: bool) {
    unsafe { fmtm::STRUCTURED.v = structured; if structured { fmtm::MAX_DIGITS.v = 1; } }
    unsafe { gfs::LOG_NAMES.v = true; }
    unsafe { gfs::LOG_CONTENT.v = true; }
    let idx: u32 = kani::any();
    let h: u64 = kani::any();
    let val: u64 = kani::any();
    kani::assume(idx < 10 && h < 10 && val < 10);
    let mut cb = mk_dump(256);
    match cb.on_start(3) { Ok(()) => {}, Err(e) => { core::mem::forget(e); } }
    cb.unspents.insert(key(0xab, idx), common::UnspentValue { block_height: h, value: val, address: String::from("a") });
    match cb.on_complete(5) { Ok(()) => {}, Err(e) => { core::mem::forget(e); assert!(false, "C07:completion_ok"); return; } }
    // txid bytes [ab, 00 x31] are displayed reversed: 62 zeros then "ab"
    let mut want = [0u8; 160];
    let head = b"txid;indexOut;height;value;address\n";
    let mut n = 0;
    while n < head.len() { want[n] = head[n]; n += 1; }
    let mut i = 0;
    while i < 62 { want[n] = b'0'; n += 1; i += 1; }
    want[n] = b'a'; want[n + 1] = b'b'; n += 2;
    want[n] = b';'; want[n + 1] = b'0' + idx as u8; want[n + 2] = b';'; want[n + 3] = b'0' + h as u8; want[n + 4] = b';'; want[n + 5] = b'0' + val as u8;
    want[n + 6] = b';'; want[n + 7] = b'a'; want[n + 8] = b'\n'; n += 9;
    unsafe {
        assert!(gfs::ACCEPTED.v[3] == n, "C07:header_plus_one_row_per_entry");
        let mut i = 0;
        while i < n && i < gfs::LOGCAP { assert!(gfs::WLOG.v[3][i] == want[i], "C07:row_carries_txid_index_height_value_address"); i += 1; }
        let wn = b"unspent-3-5.csv";
        assert!(gfs::RENAMES.v == 1 && gfs::RENAME_TO_LEN.v[0] == wn.len(), "C02:file_name_carries_start_and_last_height");
        let mut i = 0;
        while i < wn.len() { assert!(gfs::RENAME_TO.v[0][i] == wn[i], "C02:file_name_carries_start_and_last_height"); i += 1; }
    }
    kani::cover!(idx == 9 && h == 0, "digits");
    core::mem::forget(cb);
}
