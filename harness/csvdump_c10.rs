//# target: src/callbacks/csvdump.rs
//# models: fs
// C10 flush_before_rename (CsvDump) under every write-fault schedule; C02 file names; C01 rows.
use crate::blockchain::proto::header::BlockHeader;
use crate::blockchain::proto::script::{EvaluatedScript, ScriptPattern};
use crate::blockchain::proto::tx::{TxOutpoint, TxOutput};
use crate::blockchain::proto::varuint::VarUint;
use crate::verif_models::fs as gfs;
use crate::verif_models::fmtm;
use bitcoin::hashes::{sha256d, Hash};

// Vectors are built with vec![..] literals, never by push loops: [measured] after Vec::push (realloc) CBMC does not
// decide the slice iterator's `ptr == end`, iterates `for tx in &block.txs` to the unwind bound over garbage
// elements and explodes. Scripts hold one concrete byte for the same reason (empty Vec = dangling pointer).
fn mk_in(i: u32) -> TxInput {
    TxInput { outpoint: TxOutpoint::new(sha256d::Hash::all_zeros(), i), script_len: VarUint::from(1u8), script_sig: vec![0xab], seq_no: 0 }
}
fn mk_o(o: u64, with_addr: bool) -> EvaluatedTxOut {
    let addr = if with_addr { Some(String::from("a")) } else { None };
    EvaluatedTxOut { script: EvaluatedScript::new(addr, ScriptPattern::NotRecognised), out: TxOutput { value: o, script_len: VarUint::from(1u8), script_pubkey: vec![0xcd] } }
}
fn mk_t(t: u8, n_in: u8, n_out: u8, with_addr: bool) -> Hashed<EvaluatedTx> {
    let inputs = match n_in { 0 => Vec::new(), 1 => vec![mk_in(0)], _ => vec![mk_in(0), mk_in(1)] };
    let outputs = match n_out { 0 => Vec::new(), 1 => vec![mk_o(0, with_addr)], _ => vec![mk_o(0, with_addr), mk_o(1, with_addr)] };
    let mut h = [0u8; 32];
    h[0] = t + 1;
    Hashed { hash: sha256d::Hash::from_byte_array(h), value: EvaluatedTx { version: 1, in_count: VarUint::from(n_in), inputs, out_count: VarUint::from(n_out), outputs, locktime: 0 } }
}
/// n_tx, n_in, n_out in 0..=2
pub fn mk_block(n_tx: u8, n_in: u8, n_out: u8, with_addr: bool) -> Block {
    let z = sha256d::Hash::all_zeros();
    let header = BlockHeader { version: 1, prev_hash: z, merkle_root: z, timestamp: 0, bits: 0, nonce: 0 };
    let txs = match n_tx { 0 => Vec::new(), 1 => vec![mk_t(0, n_in, n_out, with_addr)], _ => vec![mk_t(0, n_in, n_out, with_addr), mk_t(1, n_in, n_out, with_addr)] };
    Block { size: 0, header: Hashed { hash: z, value: header }, aux_pow_extension: None, tx_count: VarUint::from(n_tx), txs }
}

// the hex text of scripts is irrelevant to flush/rename ordering; [measured] CBMC iterates arr_to_hex's fold to
// the unwind bound (it does not decide the slice iterator's `ptr == end`) and formats every byte
fn stub_hex(_d: &[u8]) -> String { String::new() }

// built field by field on zeroed memory (not a struct literal): still compiles when a change adds a field
fn mk_dump(cap: usize) -> CsvDump {
    let mk = |fd: usize| BufWriter::with_capacity(cap, gfs::File::ghost(fd));
    unsafe {
        let mut x = core::mem::MaybeUninit::<CsvDump>::zeroed();
        let p = x.as_mut_ptr();
        core::ptr::write(core::ptr::addr_of_mut!((*p).dump_folder), PathBuf::new());
        core::ptr::write(core::ptr::addr_of_mut!((*p).block_writer), mk(3));
        core::ptr::write(core::ptr::addr_of_mut!((*p).tx_writer), mk(4));
        core::ptr::write(core::ptr::addr_of_mut!((*p).txin_writer), mk(5));
        core::ptr::write(core::ptr::addr_of_mut!((*p).txout_writer), mk(6));
        core::ptr::write(core::ptr::addr_of_mut!((*p).start_height), 0u64);
        core::ptr::write(core::ptr::addr_of_mut!((*p).tx_count), 0u64);
        core::ptr::write(core::ptr::addr_of_mut!((*p).in_count), 0u64);
        core::ptr::write(core::ptr::addr_of_mut!((*p).out_count), 0u64);
        x.assume_init()
    }
}

// Rows are the constant 2-byte text and the buffers hold 4 bytes, so data is buffered in on_block,
// flushed when a buffer fills up, and flushed at completion. The position of the failing write call is
// CONCRETE per instance: the first failing write ends the run, so "any fault schedule" is exactly "first
// fault at call k" for k in 0..#calls, plus the fault-free run - all of them are instantiated.
// ([measured] a symbolic schedule: io::Error values merged into Box<dyn Error> through `?` and BufWriter's
// BufGuard/drain drop glue did not finish symbolic execution in 10 min, 12 GiB, even for one write.)
macro_rules! flush_before_rename {
    ($name:ident, $blocks:expr, $k:expr, $fails_in_block:expr) => {
        #[kani::proof]
        #[kani::stub(std::io::Error::is_interrupted, crate::verif_models::fs::stub_not_interrupted)]
        #[kani::stub(<std::io::Error as std::error::Error>::source, crate::verif_models::fs::stub_no_source)]
        #[kani::stub(<std::io::Error as std::error::Error>::cause, crate::verif_models::fs::stub_no_cause)]
        #[kani::stub(crate::common::utils::arr_to_hex, stub_hex)]
#[kani::unwind(5)] // small on purpose: io::Error/Box<dyn Error> drop glue and Error::cause recurse through vtables; CBMC unrolls that recursion to the bound (exponential)
        fn $name() {
            unsafe {
                fmtm::CONST_ROWS.v = true;
                if $k < gfs::NSCHED { gfs::FAULT_AT.v[$k] = true; }
            }
            let mut cb = mk_dump(4);
            let block = mk_block(1, 1, 1, false);
            let mut ok = true;
            let mut b = 0;
            while b < $blocks && ok {
                match cb.on_block(&block, b as u64) { Ok(()) => {}, Err(e) => { core::mem::forget(e); ok = false; } }
                b += 1;
            }
            assert!(unsafe { gfs::RENAMES.v } == 0, "C10:no_final_name_before_completion");
            assert!(ok == !$fails_in_block, "C10:write_failure_while_processing_a_block_is_reported");
            if ok {
                match cb.on_complete(($blocks - 1) as u64) {
                    Ok(()) => {
                        unsafe {
                            assert!(!gfs::WRITE_FAILED.v, "C10:exit_0_implies_no_write_failed");
                            assert!(gfs::RENAMES.v == 4, "C10:exit_0_implies_all_files_have_final_names");
                            assert!(cb.block_writer.buffer().is_empty() && cb.tx_writer.buffer().is_empty()
                                && cb.txin_writer.buffer().is_empty() && cb.txout_writer.buffer().is_empty(), "C10:exit_0_implies_nothing_left_buffered");
                            // unrolled (no loop): keeps the unwind bound - which is also the recursion bound - minimal
                            assert!(gfs::ACCEPTED.v[3] == gfs::SNAP_AT_FIRST_RENAME.v[3] && gfs::ACCEPTED.v[4] == gfs::SNAP_AT_FIRST_RENAME.v[4]
                                && gfs::ACCEPTED.v[5] == gfs::SNAP_AT_FIRST_RENAME.v[5] && gfs::ACCEPTED.v[6] == gfs::SNAP_AT_FIRST_RENAME.v[6], "C10:no_bytes_written_after_the_first_rename");
                            assert!(gfs::ACCEPTED.v[3] == 2 * $blocks && gfs::ACCEPTED.v[4] == 2 * $blocks && gfs::ACCEPTED.v[5] == 2 * $blocks && gfs::ACCEPTED.v[6] == 2 * $blocks, "C10:final_file_is_complete");
                        }
                        assert!($k >= gfs::NSCHED, "C10:scheduled_write_failure_is_reported");
                    }
                    Err(e) => {
                        core::mem::forget(e);
                        assert!(unsafe { gfs::WRITE_FAILED.v }, "C10:completion_fails_only_on_a_write_failure");
                        assert!(unsafe { gfs::RENAMES.v } == 0, "C10:write_failure_leaves_no_final_named_file");
                    }
                }
            }
            kani::cover!(true, "schedule evaluated to the end");
            core::mem::forget(cb);
            core::mem::forget(block);
        }
    };
}
//@ id=C10 tier=quick name=c10_csv_1_ok timeout=900 role=flush_before_rename bound=CsvDump,1-block(s),buffer-4,fault-free fn=CsvDump::on_block,CsvDump::on_complete,BufWriter
flush_before_rename!(c10_csv_1_ok, 1, usize::MAX, false);
//@ id=C10 tier=quick name=c10_csv_1_f0 timeout=900 role=flush_before_rename bound=CsvDump,1-block(s),buffer-4,write-call-0-fails(final-flush-of-file-0) fn=CsvDump::on_block,CsvDump::on_complete,BufWriter
flush_before_rename!(c10_csv_1_f0, 1, 0, false);
//@ id=C10 tier=quick name=c10_csv_1_f1 timeout=900 role=flush_before_rename bound=CsvDump,1-block(s),buffer-4,write-call-1-fails(final-flush-of-file-1) fn=CsvDump::on_block,CsvDump::on_complete,BufWriter
flush_before_rename!(c10_csv_1_f1, 1, 1, false);
//@ id=C10 tier=quick name=c10_csv_1_f2 timeout=900 role=flush_before_rename bound=CsvDump,1-block(s),buffer-4,write-call-2-fails(final-flush-of-file-2) fn=CsvDump::on_block,CsvDump::on_complete,BufWriter
flush_before_rename!(c10_csv_1_f2, 1, 2, false);
//@ id=C10 tier=quick name=c10_csv_1_f3 timeout=900 role=flush_before_rename bound=CsvDump,1-block(s),buffer-4,write-call-3-fails(final-flush-of-file-3) fn=CsvDump::on_block,CsvDump::on_complete,BufWriter
flush_before_rename!(c10_csv_1_f3, 1, 3, false);
//@ id=C10 tier=quick name=c10_csv_3_ok timeout=900 role=flush_before_rename bound=CsvDump,3-block(s),buffer-4,fault-free fn=CsvDump::on_block,CsvDump::on_complete,BufWriter
flush_before_rename!(c10_csv_3_ok, 3, usize::MAX, false);
//@ id=C10 tier=quick name=c10_csv_3_f0 timeout=900 role=flush_before_rename bound=CsvDump,3-block(s),buffer-4,write-call-0-fails fn=CsvDump::on_block,CsvDump::on_complete,BufWriter
flush_before_rename!(c10_csv_3_f0, 3, 0, true);
//@ id=C10 tier=thorough name=c10_csv_3_f1 timeout=900 role=flush_before_rename bound=CsvDump,3-block(s),buffer-4,write-call-1-fails fn=CsvDump::on_block,CsvDump::on_complete,BufWriter
flush_before_rename!(c10_csv_3_f1, 3, 1, true);
//@ id=C10 tier=thorough name=c10_csv_3_f2 timeout=900 role=flush_before_rename bound=CsvDump,3-block(s),buffer-4,write-call-2-fails fn=CsvDump::on_block,CsvDump::on_complete,BufWriter
flush_before_rename!(c10_csv_3_f2, 3, 2, true);
//@ id=C10 tier=quick name=c10_csv_3_f3 timeout=900 role=flush_before_rename bound=CsvDump,3-block(s),buffer-4,write-call-3-fails fn=CsvDump::on_block,CsvDump::on_complete,BufWriter
flush_before_rename!(c10_csv_3_f3, 3, 3, true);
//@ id=C10 tier=quick name=c10_csv_3_f4 timeout=900 role=flush_before_rename bound=CsvDump,3-block(s),buffer-4,write-call-4-fails fn=CsvDump::on_block,CsvDump::on_complete,BufWriter
flush_before_rename!(c10_csv_3_f4, 3, 4, false);
//@ id=C10 tier=thorough name=c10_csv_3_f5 timeout=900 role=flush_before_rename bound=CsvDump,3-block(s),buffer-4,write-call-5-fails fn=CsvDump::on_block,CsvDump::on_complete,BufWriter
flush_before_rename!(c10_csv_3_f5, 3, 5, false);
//@ id=C10 tier=quick name=c10_csv_3_f6 timeout=900 role=flush_before_rename bound=CsvDump,3-block(s),buffer-4,write-call-6-fails fn=CsvDump::on_block,CsvDump::on_complete,BufWriter
flush_before_rename!(c10_csv_3_f6, 3, 6, false);
//@ id=C10 tier=thorough name=c10_csv_3_f7 timeout=900 role=flush_before_rename bound=CsvDump,3-block(s),buffer-4,write-call-7-fails fn=CsvDump::on_block,CsvDump::on_complete,BufWriter
flush_before_rename!(c10_csv_3_f7, 3, 7, false);

// Completion only: the callback is not driven through on_block; one byte is put into each buffer directly, so the
// only code under test is on_complete (flush x4, rename x4) with the first failing write at flush k. This is the
// cheapest form of the late-flush-failure question and stays decidable when on_complete itself is restructured
// (seed C10-a: flush+rename per file in one loop made every on_block-driven instance run out of memory).
macro_rules! complete_only {
    ($name:ident, $k:expr) => {
        #[kani::proof]
        #[kani::stub(std::io::Error::is_interrupted, crate::verif_models::fs::stub_not_interrupted)]
        #[kani::stub(<std::io::Error as std::error::Error>::source, crate::verif_models::fs::stub_no_source)]
        #[kani::stub(<std::io::Error as std::error::Error>::cause, crate::verif_models::fs::stub_no_cause)]
        #[kani::unwind(5)]
        fn $name() {
            unsafe { fmtm::CONST_ROWS.v = true; if $k < gfs::NSCHED { gfs::FAULT_AT.v[$k] = true; } }
            let mut cb = mk_dump(4);
            let x: u8 = kani::any();
            let one = [x];
            let mut pre_ok = true;
            match cb.block_writer.write_all(&one) { Ok(()) => {}, Err(e) => { core::mem::forget(e); pre_ok = false; } }
            match cb.tx_writer.write_all(&one) { Ok(()) => {}, Err(e) => { core::mem::forget(e); pre_ok = false; } }
            match cb.txin_writer.write_all(&one) { Ok(()) => {}, Err(e) => { core::mem::forget(e); pre_ok = false; } }
            match cb.txout_writer.write_all(&one) { Ok(()) => {}, Err(e) => { core::mem::forget(e); pre_ok = false; } }
            assert!(pre_ok && unsafe { gfs::WRITE_CALLS.v } == 0, "C10:harness_bytes_are_buffered_not_written");
            match cb.on_complete(0) {
                Ok(()) => {
                    unsafe {
                        assert!(!gfs::WRITE_FAILED.v, "C10:exit_0_implies_no_write_failed");
                        assert!(gfs::RENAMES.v == 4, "C10:exit_0_implies_all_files_have_final_names");
                        assert!(gfs::ACCEPTED.v[3] == 1 && gfs::ACCEPTED.v[4] == 1 && gfs::ACCEPTED.v[5] == 1 && gfs::ACCEPTED.v[6] == 1, "C10:final_file_is_complete");
                        assert!(gfs::ACCEPTED.v[3] == gfs::SNAP_AT_FIRST_RENAME.v[3] && gfs::ACCEPTED.v[4] == gfs::SNAP_AT_FIRST_RENAME.v[4]
                            && gfs::ACCEPTED.v[5] == gfs::SNAP_AT_FIRST_RENAME.v[5] && gfs::ACCEPTED.v[6] == gfs::SNAP_AT_FIRST_RENAME.v[6], "C10:no_bytes_written_after_the_first_rename");
                    }
                    assert!($k >= 4, "C10:scheduled_write_failure_is_reported");
                }
                Err(e) => {
                    core::mem::forget(e);
                    assert!(unsafe { gfs::WRITE_FAILED.v }, "C10:completion_fails_only_on_a_write_failure");
                    assert!(unsafe { gfs::RENAMES.v } == 0, "C10:write_failure_leaves_no_final_named_file");
                }
            }
            kani::cover!(true, "schedule evaluated to the end");
            core::mem::forget(cb);
        }
    };
}
//@ id=C10 tier=quick name=c10_csv_done_ok timeout=900 role=flush_before_rename bound=CsvDump::on_complete-only,1-byte-buffered-per-file,fault-free fn=CsvDump::on_complete,BufWriter
complete_only!(c10_csv_done_ok, usize::MAX);
//@ id=C10 tier=quick name=c10_csv_done_f1 timeout=900 role=flush_before_rename bound=CsvDump::on_complete-only,final-flush-of-file-1-fails
complete_only!(c10_csv_done_f1, 1);
//@ id=C10 tier=quick name=c10_csv_done_f3 timeout=900 role=flush_before_rename bound=CsvDump::on_complete-only,final-flush-of-file-3-fails
complete_only!(c10_csv_done_f3, 3);

// Symbolic schedule: every subset of failing write calls (and, optionally, short writes), decided in one query.
macro_rules! flush_sym {
    ($name:ident, $blocks:expr, $short:expr) => {
        #[kani::proof]
        #[kani::stub(std::io::Error::is_interrupted, crate::verif_models::fs::stub_not_interrupted)]
        #[kani::stub(<std::io::Error as std::error::Error>::source, crate::verif_models::fs::stub_no_source)]
        #[kani::stub(<std::io::Error as std::error::Error>::cause, crate::verif_models::fs::stub_no_cause)]
        #[kani::stub(crate::common::utils::arr_to_hex, stub_hex)]
        #[kani::unwind(14)]
        fn $name() {
            unsafe {
                fmtm::CONST_ROWS.v = true;
                gfs::FAULT_AT.v = kani::any();
                if $short { gfs::SHORT_AT.v = kani::any(); }
            }
            let mut cb = mk_dump(4);
            let block = mk_block(1, 1, 1, false);
            let mut ok = true;
            let mut b = 0;
            while b < $blocks && ok {
                match cb.on_block(&block, b as u64) { Ok(()) => {}, Err(e) => { core::mem::forget(e); ok = false; } }
                b += 1;
            }
            assert!(unsafe { gfs::RENAMES.v } == 0, "C10:no_final_name_before_completion");
            if ok {
                match cb.on_complete(($blocks - 1) as u64) {
                    Ok(()) => {
                        unsafe {
                            assert!(!gfs::WRITE_FAILED.v, "C10:exit_0_implies_no_write_failed");
                            assert!(gfs::RENAMES.v == 4, "C10:exit_0_implies_all_files_have_final_names");
                            assert!(cb.block_writer.buffer().is_empty() && cb.tx_writer.buffer().is_empty()
                                && cb.txin_writer.buffer().is_empty() && cb.txout_writer.buffer().is_empty(), "C10:exit_0_implies_nothing_left_buffered");
                            // unrolled (no loop): keeps the unwind bound - which is also the recursion bound - minimal
                            assert!(gfs::ACCEPTED.v[3] == gfs::SNAP_AT_FIRST_RENAME.v[3] && gfs::ACCEPTED.v[4] == gfs::SNAP_AT_FIRST_RENAME.v[4]
                                && gfs::ACCEPTED.v[5] == gfs::SNAP_AT_FIRST_RENAME.v[5] && gfs::ACCEPTED.v[6] == gfs::SNAP_AT_FIRST_RENAME.v[6], "C10:no_bytes_written_after_the_first_rename");
                            assert!(gfs::ACCEPTED.v[3] == 2 * $blocks && gfs::ACCEPTED.v[4] == 2 * $blocks && gfs::ACCEPTED.v[5] == 2 * $blocks && gfs::ACCEPTED.v[6] == 2 * $blocks, "C10:final_file_is_complete");
                        }
                        kani::cover!(unsafe { gfs::WRITE_CALLS.v } >= 4, "successful run");
                    }
                    Err(e) => {
                        core::mem::forget(e);
                        assert!(unsafe { gfs::WRITE_FAILED.v }, "C10:completion_fails_only_on_a_write_failure");
                        assert!(unsafe { gfs::RENAMES.v } == 0, "C10:write_failure_leaves_no_final_named_file");
                        kani::cover!(true, "write failed during completion (final flush)");
                    }
                }
            } else {
                kani::cover!(unsafe { gfs::WRITE_FAILED.v }, "write failed while processing a block");
            }
            core::mem::forget(cb);
            core::mem::forget(block);
        }
    };
}
//@ id=C10 tier=extra name=c10_csv_sym_1 timeout=5400 mem=30 role=flush_before_rename bound=CsvDump,1-block,buffer-4,SYMBOLIC-fault-schedule(any-subset-of-the-first-12-write-calls-fails) fn=CsvDump::on_block,CsvDump::on_complete,BufWriter
flush_sym!(c10_csv_sym_1, 1, false);
//@ id=C10 tier=extra name=c10_csv_sym_3 timeout=7200 role=flush_before_rename bound=CsvDump,3-blocks,buffer-4,SYMBOLIC-fault-schedule mem=30
flush_sym!(c10_csv_sym_3, 3, false);
//@ id=C10 tier=extra name=c10_csv_sym_3_short timeout=5400 role=flush_before_rename bound=CsvDump,3-blocks,buffer-4,SYMBOLIC-faults-and-short-writes mem=24
flush_sym!(c10_csv_sym_3_short, 3, true);

// C02 names + C01 totals: real formatting, no faults
//@ id=C02,C01 tier=extra name=c02_csv_names timeout=5400 role=names bound=CsvDump,start/last-heights-from-{0,7,12,345}x{0,9,10,99999} mem=20 fn=CsvDump::on_start,CsvDump::on_complete
#[kani::proof]
#[kani::unwind(48)]
fn c02_csv_names() {
    unsafe { gfs::LOG_NAMES.v = true; }
    let si: u8 = kani::any();
    let ei: u8 = kani::any();
    kani::assume(si < 4 && ei < 4);
    let starts = [0u64, 7, 12, 345];
    let ends = [0u64, 9, 10, 99999];
    let (s, e) = (starts[si as usize], ends[ei as usize]);
    let mut cb = mk_dump(64);
    match cb.on_start(s) { Ok(()) => {}, Err(er) => { core::mem::forget(er); } }
    match cb.on_complete(e) {
        Ok(()) => {}
        Err(er) => { core::mem::forget(er); assert!(false, "C02:completion_ok"); }
    }
    let kinds: [&str; 4] = ["blocks", "transactions", "tx_in", "tx_out"];
    let stxt: [&str; 4] = ["0", "7", "12", "345"];
    let etxt: [&str; 4] = ["0", "9", "10", "99999"];
    unsafe {
        assert!(gfs::RENAMES.v == 4, "C02:four_files_renamed");
        let mut k = 0;
        while k < 4 {
            let mut want = String::new();
            want.push_str(kinds[k]); want.push('-'); want.push_str(stxt[si as usize]); want.push('-'); want.push_str(etxt[ei as usize]); want.push_str(".csv");
            let got = &gfs::RENAME_TO.v[k][..gfs::RENAME_TO_LEN.v[k]];
            assert!(got.len() == want.len(), "C02:file_name_carries_start_and_last_height");
            let wb = want.as_bytes();
            let mut i = 0;
            while i < got.len() { assert!(got[i] == wb[i], "C02:file_name_carries_start_and_last_height"); i += 1; }
            core::mem::forget(want);
            k += 1;
        }
    }
    kani::cover!(si == 3 && ei == 3, "multi-digit heights");
    core::mem::forget(cb);
}

// One concrete (start, last) pair with real formatting: the symbolic 4x4 table above does not finish.
macro_rules! csv_names_at {
    ($name:ident, $s:expr, $e:expr, $stxt:expr, $etxt:expr, $structured:expr) => {
        #[kani::proof]
        #[kani::unwind(42)]
        fn $name() {
            unsafe { gfs::LOG_NAMES.v = true; fmtm::STRUCTURED.v = $structured; }
            let mut cb = mk_dump(64);
            match cb.on_start($s) { Ok(()) => {}, Err(er) => { core::mem::forget(er); } }
            match cb.on_complete($e) {
                Ok(()) => {}
                Err(er) => { core::mem::forget(er); assert!(false, "C02:completion_ok"); }
            }
            let kinds: [&str; 4] = ["blocks", "transactions", "tx_in", "tx_out"];
            unsafe {
                assert!(gfs::RENAMES.v == 4, "C02:four_files_renamed");
                let mut k = 0;
                while k < 4 {
                    let mut want = String::new();
                    want.push_str(kinds[k]); want.push('-'); want.push_str($stxt); want.push('-'); want.push_str($etxt); want.push_str(".csv");
                    let got = &gfs::RENAME_TO.v[k][..gfs::RENAME_TO_LEN.v[k]];
                    assert!(got.len() == want.len(), "C02:file_name_carries_start_and_last_height");
                    let wb = want.as_bytes();
                    let mut i = 0;
                    while i < got.len() { assert!(got[i] == wb[i], "C02:file_name_carries_start_and_last_height"); i += 1; }
                    core::mem::forget(want);
                    k += 1;
                }
            }
            kani::cover!(true, "names compared");
            core::mem::forget(cb);
        }
    };
}
//@ id=C02 tier=extra name=c02_csv_names_7_12 timeout=7200 role=names bound=CsvDump,start-7,last-12,real-formatting mem=20 fn=CsvDump::on_start,CsvDump::on_complete
csv_names_at!(c02_csv_names_7_12, 7, 12, "7", "12", false);
//@ id=C02 tier=quick name=c02_csv_names_12_345 timeout=900 role=names bound=CsvDump,start-12,last-345,structured-format-model fn=CsvDump::on_start,CsvDump::on_complete
csv_names_at!(c02_csv_names_12_345, 12, 345, "12", "345", true);
//@ id=C02 tier=quick name=c02_csv_names_0_0 timeout=900 role=names bound=CsvDump,start-0,last-0,structured-format-model
csv_names_at!(c02_csv_names_0_0, 0, 0, "0", "0", true);
//@ id=C02 tier=thorough name=c02_csv_names_big timeout=900 role=names bound=CsvDump,start-65536,last-4294967296(beyond-u32),structured-format-model
csv_names_at!(c02_csv_names_big, 65536, 4294967296, "65536", "4294967296", true);

// File names with the structured format model (verif_models::fmtm): start and last height symbolic below 10^$digits.
macro_rules! csv_names_model {
    ($name:ident, $lim:expr, $digits:expr) => {
        #[kani::proof]
        #[kani::unwind(42)]
        fn $name() {
            unsafe { gfs::LOG_NAMES.v = true; fmtm::STRUCTURED.v = true; fmtm::MAX_DIGITS.v = $digits; }
            let s: u64 = kani::any();
            let e: u64 = kani::any();
            kani::assume(s < $lim && e < $lim);
            let mut cb = mk_dump(64);
            match cb.on_start(s) { Ok(()) => {}, Err(er) => { core::mem::forget(er); } }
            match cb.on_complete(e) {
                Ok(()) => {}
                Err(er) => { core::mem::forget(er); assert!(false, "C02:completion_ok"); }
            }
            let kinds: [&str; 4] = ["blocks", "transactions", "tx_in", "tx_out"];
            unsafe {
                assert!(gfs::RENAMES.v == 4, "C02:four_files_renamed");
                let mut k = 0;
                while k < 4 {
                    let got = &gfs::RENAME_TO.v[k][..gfs::RENAME_TO_LEN.v[k]];
                    assert!(name_is(got, kinds[k].as_bytes(), s, e), "C02:file_name_carries_start_and_last_height");
                    k += 1;
                }
            }
            kani::cover!($lim <= 10 || (s > 9 && e > 99), "multi-digit heights");
            kani::cover!(s == 0, "start 0");
            core::mem::forget(cb);
        }
    };
}
/// got == kind "-" dec(s) "-" dec(e) ".csv", checked right to left without rendering (no division: digits are
/// checked by multiplying back)
fn name_is(got: &[u8], kind: &[u8], s: u64, e: u64) -> bool {
    let n = got.len();
    if n < kind.len() + 8 || &got[n - 4..] != b".csv" { return false; }
    let mut i = n - 4;
    let (ev, i2) = match parse_back(got, i) { Some(x) => x, None => return false };
    i = i2;
    if i == 0 || got[i - 1] != b'-' { return false; }
    i -= 1;
    let (sv, i3) = match parse_back(got, i) { Some(x) => x, None => return false };
    i = i3;
    if i == 0 || got[i - 1] != b'-' { return false; }
    i -= 1;
    if i != kind.len() { return false; }
    let mut k = 0;
    while k < i { if got[k] != kind[k] { return false; } k += 1; }
    sv == s && ev == e
}
/// canonical decimal number ending just before `end`: returns (value, index of its first digit)
fn parse_back(b: &[u8], end: usize) -> Option<(u64, usize)> {
    let mut i = end;
    let mut v: u64 = 0;
    let mut mul: u64 = 1;
    let mut nd = 0;
    while i > 0 && b[i - 1] >= b'0' && b[i - 1] <= b'9' && nd < 19 {
        v += (b[i - 1] - b'0') as u64 * mul;
        mul = mul.wrapping_mul(10);
        i -= 1;
        nd += 1;
    }
    if nd == 0 { return None; }
    if nd > 1 && b[i] == b'0' { return None; } // leading zero
    Some((v, i))
}
//@ id=C02 tier=thorough name=c02_csv_names_m3 timeout=1800 role=names bound=CsvDump,start/last-height<1000-symbolic,structured-format-model mem=20 fn=CsvDump::on_start,CsvDump::on_complete
csv_names_model!(c02_csv_names_m3, 1000, 3);

// C01 row text: the four CSV rows of one block / transaction / input / output with distinct concrete field values
// (column order and separators only; the values' own rendering is the model's), rendered through
// the structured format model and compared with rows built by an oracle that knows the documented column order.
// Script hex: arr_to_hex is cut to its one-byte case here (the function itself is C01 `c01_hex`).
fn hex1(d: &[u8]) -> String {
    let t = b"0123456789abcdef";
    let mut s = String::with_capacity(2);
    s.push(t[(d[0] >> 4) as usize] as char);
    s.push(t[(d[0] & 15) as usize] as char);
    s
}
struct Row { b: [u8; 224], n: usize }
impl Row {
    fn new() -> Row { Row { b: [0; 224], n: 0 } }
    fn ch(&mut self, c: u8) { self.b[self.n] = c; self.n += 1; }
    fn num(&mut self, v: u64) {
        let mut t = [0u8; 20];
        let mut n = 0;
        let mut x = v;
        while n < 20 { t[n] = b'0' + (x % 10) as u8; x /= 10; n += 1; if x == 0 { break; } }
        while n > 0 { n -= 1; self.ch(t[n]); }
    }
    fn hash(&mut self, h: &[u8; 32]) {
        let t = b"0123456789abcdef";
        let mut i = 32;
        while i > 0 { i -= 1; self.ch(t[(h[i] >> 4) as usize]); self.ch(t[(h[i] & 15) as usize]); }
    }
    fn byte(&mut self, x: u8) { let t = b"0123456789abcdef"; self.ch(t[(x >> 4) as usize]); self.ch(t[(x & 15) as usize]); }
    fn same_as_file(&self, fd: usize) -> bool {
        unsafe {
            if gfs::ACCEPTED.v[fd] != self.n { return false; }
            let mut i = 0;
            while i < self.n { if gfs::WLOG.v[fd][i] != self.b[i] { return false; } i += 1; }
        }
        true
    }
}
//@ id=C01 tier=thorough name=c01_row_text timeout=2400 role=block_rows bound=1-block,1-tx,1-input,1-output,CONCRETE-distinct-field-values(column-order-only),1-byte-scripts,structured-format-model mem=24 fn=CsvDump::on_block,Block::as_csv,Hashed<EvaluatedTx>::as_csv,TxInput::as_csv,EvaluatedTxOut::as_csv
#[kani::proof]
#[kani::stub(std::io::Error::is_interrupted, crate::verif_models::fs::stub_not_interrupted)]
#[kani::stub(<std::io::Error as std::error::Error>::source, crate::verif_models::fs::stub_no_source)]
#[kani::stub(<std::io::Error as std::error::Error>::cause, crate::verif_models::fs::stub_no_cause)]
#[kani::stub(crate::common::utils::arr_to_hex, hex1)]
#[kani::unwind(230)]
fn c01_row_text() { row_text_body([1, 2, 3, 4, 5, 6, 7, 8, 9, 1, 3, 0], 1) }
// every transaction-level integer at the maximum of its type (index 0xffffffff is the coinbase marker on a non-null txid)
//@ id=C01 tier=thorough name=c01_row_text_max timeout=3000 role=block_rows bound=1-block,1-tx,1-input,1-output,CONCRETE-values:tx-version/locktime/index/sequence=u32::MAX,value=u64::MAX,height-2^32,structured-format-model mem=24
#[kani::proof]
#[kani::stub(std::io::Error::is_interrupted, crate::verif_models::fs::stub_not_interrupted)]
#[kani::stub(<std::io::Error as std::error::Error>::source, crate::verif_models::fs::stub_no_source)]
#[kani::stub(<std::io::Error as std::error::Error>::cause, crate::verif_models::fs::stub_no_cause)]
#[kani::stub(crate::common::utils::arr_to_hex, hex1)]
#[kani::unwind(230)]
fn c01_row_text_max() { row_text_body([1, 2, 3, 4, 5, 0xffffffff, 0xfffffffe, 0xffffffff, 0xfffffffd, u64::MAX, 4294967296, 0], 20) }
fn row_text_body(d: [u64; 12], digits: usize) {
    unsafe { fmtm::STRUCTURED.v = true; fmtm::MAX_DIGITS.v = digits; gfs::LOG_CONTENT.v = true; }
    // [measured] symbolic field values (even one digit each and two bytes per hash) did not finish in 15 min; with
    // concrete values the real on_block / as_csv code and the model take 515 s / 14 GiB (unwind 230 for the 207-byte row)
    let hs: [[u8; 32]; 5] = [[0x1a; 32], [0x2b; 32], [0x3c; 32], [0x4d; 32], [0x5e; 32]]; // block hash, prev hash, merkle root, txid, spent txid
    let sc: [u8; 2] = [0xab, 0xcd];
    let mut block = mk_block(1, 1, 1, true);
    block.size = d[0] as u32;
    block.header.hash = sha256d::Hash::from_byte_array(hs[0]);
    block.header.value.version = d[1] as u32;
    block.header.value.prev_hash = sha256d::Hash::from_byte_array(hs[1]);
    block.header.value.merkle_root = sha256d::Hash::from_byte_array(hs[2]);
    block.header.value.timestamp = d[2] as u32;
    block.header.value.bits = d[3] as u32;
    block.header.value.nonce = d[4] as u32;
    block.txs[0].hash = sha256d::Hash::from_byte_array(hs[3]);
    block.txs[0].value.version = d[5] as u32;
    block.txs[0].value.locktime = d[6] as u32;
    block.txs[0].value.inputs[0].outpoint = TxOutpoint::new(sha256d::Hash::from_byte_array(hs[4]), d[7] as u32);
    block.txs[0].value.inputs[0].seq_no = d[8] as u32;
    block.txs[0].value.inputs[0].script_sig[0] = sc[0];
    block.txs[0].value.outputs[0].out.value = d[9];
    block.txs[0].value.outputs[0].out.script_pubkey[0] = sc[1];
    let height = d[10];
    let mut cb = mk_dump(256);
    match cb.on_block(&block, height) { Ok(()) => {}, Err(e) => { core::mem::forget(e); assert!(false, "C01:on_block_ok"); } }
    match cb.on_complete(height) { Ok(()) => {}, Err(e) => { core::mem::forget(e); assert!(false, "C01:completion_ok"); } }
    // (@hash, height, version, blocksize, @hashPrev, @hashMerkleRoot, nTime, nBits, nNonce)
    let mut r = Row::new();
    r.hash(&hs[0]); r.ch(b';'); r.num(height); r.ch(b';'); r.num(d[1]); r.ch(b';'); r.num(d[0]); r.ch(b';');
    r.hash(&hs[1]); r.ch(b';'); r.hash(&hs[2]); r.ch(b';'); r.num(d[2]); r.ch(b';'); r.num(d[3]); r.ch(b';'); r.num(d[4]); r.ch(b'\n');
    assert!(r.same_as_file(3), "C01:block_row_is_hash_height_version_size_prev_merkle_time_bits_nonce");
    // (@txid, @hashBlock, version, lockTime)
    let mut r = Row::new();
    r.hash(&hs[3]); r.ch(b';'); r.hash(&hs[0]); r.ch(b';'); r.num(d[5]); r.ch(b';'); r.num(d[6]); r.ch(b'\n');
    assert!(r.same_as_file(4), "C01:tx_row_is_txid_blockhash_version_locktime");
    // (@txid, @hashPrevOut, indexPrevOut, scriptSig, sequence)
    let mut r = Row::new();
    r.hash(&hs[3]); r.ch(b';'); r.hash(&hs[4]); r.ch(b';'); r.num(d[7]); r.ch(b';'); r.byte(sc[0]); r.ch(b';'); r.num(d[8]); r.ch(b'\n');
    assert!(r.same_as_file(5), "C01:input_row_is_txid_prevout_index_scriptsig_sequence");
    // (@txid, indexOut, value, @scriptPubKey, address)
    let mut r = Row::new();
    r.hash(&hs[3]); r.ch(b';'); r.num(0); r.ch(b';'); r.num(d[9]); r.ch(b';'); r.byte(sc[1]); r.ch(b';'); r.ch(b'a'); r.ch(b'\n');
    assert!(r.same_as_file(6), "C01:output_row_is_txid_index_value_scriptpubkey_address");
    kani::cover!(d[1] != d[0] && d[2] != d[3] && d[3] != d[4] && d[5] != d[6] && d[7] != d[8] && d[9] != 0 && d[10] != d[1], "all integer columns distinguishable");
    core::mem::forget(cb);
    core::mem::forget(block);
}

// C01 block_rows: one row per block / transaction / input / output, totals equal the rows written.
// Constant rows (2 bytes each); the row *text* with real formatting is the thorough-tier c02_csv_names / c07_unspent_row.
//@ id=C01 tier=quick name=c01_rows_2_2_2 timeout=900 role=block_rows bound=2-blocks-x-2-txs-x-2-inputs-x-2-outputs,constant-rows fn=CsvDump::on_block,CsvDump::on_complete
#[kani::proof]
#[kani::stub(std::io::Error::is_interrupted, crate::verif_models::fs::stub_not_interrupted)]
#[kani::stub(<std::io::Error as std::error::Error>::source, crate::verif_models::fs::stub_no_source)]
#[kani::stub(<std::io::Error as std::error::Error>::cause, crate::verif_models::fs::stub_no_cause)]
#[kani::stub(crate::common::utils::arr_to_hex, stub_hex)]
#[kani::unwind(5)]
fn c01_rows_2_2_2() {
    unsafe { fmtm::CONST_ROWS.v = true; }
    let mut cb = mk_dump(256);
    let block = mk_block(2, 2, 2, true);
    match cb.on_block(&block, 0) { Ok(()) => {}, Err(e) => { core::mem::forget(e); assert!(false, "C01:on_block_ok"); } }
    match cb.on_block(&block, 1) { Ok(()) => {}, Err(e) => { core::mem::forget(e); assert!(false, "C01:on_block_ok"); } }
    assert!(cb.tx_count == 4 && cb.in_count == 8 && cb.out_count == 8, "C01:totals_equal_rows_processed");
    match cb.on_complete(1) { Ok(()) => {}, Err(e) => { core::mem::forget(e); assert!(false, "C01:completion_ok"); } }
    unsafe {
        assert!(gfs::ACCEPTED.v[3] == 2 * 2, "C01:one_row_per_block");
        assert!(gfs::ACCEPTED.v[4] == 2 * 4, "C01:one_row_per_transaction");
        assert!(gfs::ACCEPTED.v[5] == 2 * 8, "C01:one_row_per_input");
        assert!(gfs::ACCEPTED.v[6] == 2 * 8, "C01:one_row_per_output");
    }
    kani::cover!(true, "evaluated");
    core::mem::forget(cb);
    core::mem::forget(block);
}
