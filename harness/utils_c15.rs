//# target: src/common/utils.rs
// C15 kernel: get_mean on up to 4 symbolic u32 == exact u64 sum / n (IEEE division), 0.0 for empty.

//@ id=C15,C14 tier=quick name=c15_mean timeout=300 role=mean
#[kani::proof]
#[kani::unwind(6)]
fn c15_mean() {
    let vals: [u32; 4] = kani::any();
    let n: usize = kani::any();
    kani::assume(n <= 4);
    let got = get_mean(&vals[..n]);
    let mut sum: u64 = 0;
    let mut i = 0;
    while i < n {
        sum += vals[i] as u64;
        i += 1;
    }
    kani::cover!(n == 0, "empty slice");
    kani::cover!(sum > u32::MAX as u64, "sum beyond 2^32");
    kani::cover!(n == 4 && sum < 100, "small sum");
    if n == 0 {
        assert!(got == 0.0, "C15:mean_empty_is_zero");
    } else {
        let expect = sum as f64 / n as f64;
        assert!(got == expect, "C15:mean_exact");
    }
}
