#!/usr/bin/env python3
"""Regenerates /verif/MANIFEST.json from the per-property table below.
A property is claimed iff it has at least one registered harness (//@ id=...) AND an entry with claimed=True."""
import json, os, sys
VERIF = os.path.dirname(os.path.dirname(os.path.abspath(__file__)))
sys.path.insert(0, os.path.join(VERIF, "lib"))
import overlay

TRUST = ("Trusted base: Kani 0.68 / CBMC 6.11 / CaDiCaL, dev-profile semantics, 64-bit usize; the library models "
         "(slot-array HashMap, ordered LevelDB iterator, sequential rayon, ghost fs/process/time) and kani::stubs with the contracts "
         "of DESIGN.md §1.5 / §9.2, incl. the structured model of `format!`/`println!` for `{}` and `{: <N}` (cross-checked natively against core::fmt by bin/modeltest and in every native replay); harness oracles written from the property text. ")

P = {
 "C01": dict(claimed=True, tech="bounded model checking (Kani/CBMC): parser + serializer round-trip harnesses, symbolic content over enumerated shapes",
   text="For every byte content inside each enumerated transaction/block shape, the real read_* functions return fields equal to the LE slices at oracle-computed offsets, ToRaw re-serialization equals the witness-stripped input, CompactSize decode is complete for all 9-byte inputs, and CsvDump::on_block emits one row per item in order (thorough: the four rows' text for one block/tx/input/output with concrete distinct values, column by column). Bounded, not a proof.",
   note="Outside: SHA-256 itself (uninterpreted), integer Display beyond the sampled digits, shapes beyond the listed counts/lengths."),
 "C02": dict(claimed=True, tech="bounded model checking (Kani/CBMC): assume-guarantee decomposition of the driver loop",
   text="BlockHeightRange::new, ChainIndex::new (clamp/trim over full-width u64 start/end), one ChainStorage::get_block step and BlockchainParser::start with a recording callback are checked for every start/end within small chain lengths; the file names produced by the three on_complete implementations are compared byte for byte for concrete (start,last) pairs (quick) and for every pair below 1000 (CsvDump, thorough), formatting through the structured format model.",
   note="Outside: chains longer than the bound (number of blocks), real callbacks' outputs (other properties), core::fmt itself (modelled), the two-run slice comparison."),
 "C03": dict(claimed=True, tech="bounded model checking (Kani/CBMC): differential harness against Bitcoin Core's VarInt reference + dispatch/seek harnesses",
   text="read_varint equals the Core reference on every <=10-byte input; index records decode field-by-field; get_block asks the file/offset named by the record; read_block reads the size prefix and header at that offset regardless of the previous reader position.",
   note="Outside: ChainStorage::new / BlkFile::from_path (directory enumeration, symlink resolution, which blk files are kept: real FS, not encoded - seed C03-r2 is missed for this reason), hundreds of files."),
 "C04": dict(claimed=True, tech="bounded model checking (Kani/CBMC) of get_block_index over symbolic fork histories",
   text="get_block_index over an active chain of 2 blocks plus one competitor record (all hashes, the competitor status within its kind, file/offset symbolic; key order and competitor height concrete per instance): header-only / failed-without-data competitors never displace an active record, data-bearing competitors sorting before the active block do not either. Two genuine defects are recorded as known findings (data-bearing competitor sorting after the active block; data-bearing competitor above the tip).",
   note="Outside: more than one competitor; indexes without a unique best chain; prev-hash linkage of delivered blocks (checked by --verify, C09). known_findings.json lists the two open findings; any other failing assertion still fails the check."),
 "C05": dict(claimed=True, tech="bounded model checking (Kani/CBMC): differential harness vs byte-template oracle, all contents per script length",
   text="For every content of each listed script length on Bitcoin and testnet3, pattern and address payload equal a reference classifier written from the property text; multisig structure checked with the real is_multisig.",
   note="Outside: Base58/Bech32 digit encoding and checksums (stubbed, payload recorded), scripts longer than the listed lengths."),
 "C06": dict(claimed=True, tech="bounded model checking (Kani/CBMC): tokenizer kernel for all 256 opcodes + template harnesses",
   text="One maybe_push_data step from any position of any <=12-byte script follows Bitcoin push rules; eval on enumerated opcode structures with symbolic payloads yields the template types and Base58Check payloads of the property.",
   note="Outside: free-form scripts with symbolic opcodes at every position (OOM), Base58 digit conversion, SHA/RIPEMD (uninterpreted)."),
 "C07": dict(claimed=True, tech="bounded model checking (Kani/CBMC) of remove_unspents/insert_unspents against a flat alive-table oracle",
   text="For every 2-block history within the bound (symbolic txids, indices, values, addresses, spend targets) the final map equals the oracle's alive address-bearing outputs; key round trip; one row per entry, the row text (txid;index;height;value;address with one-digit numbers) byte for byte through the format model.",
   note="Outside: long histories; rendering of wide integers."),
 "C08": dict(claimed=True, tech="bounded model checking (Kani/CBMC) of Balances::{on_block,on_complete}",
   text="Balances and UnspentCsvDump leave equal maps on the same blocks; on_complete writes one line per distinct address with the exact sum (line text compared byte for byte for two concrete address patterns with symbolic values, format model).",
   note="Outside: more than 3 outputs per address; decimal rendering of wide sums."),
 "C09": dict(claimed=True, tech="bounded model checking (Kani/CBMC) with uninterpreted hash + call log",
   text="merkle_root follows Bitcoin's schedule for n<=5 (9 thorough) leaves; ChainStorage::verify accepts iff merkle, prev-hash/genesis conditions hold; failure stops the driver with exit 1 before on_complete.",
   note="Outside: collision resistance; trees above the bound."),
 "C10": dict(claimed=True, tech="bounded model checking (Kani/CBMC) over a symbolic write-fault schedule (ghost fs model)",
   text="For the fault-free run and for the first failing File::write at every call position (concrete per instance in the quick tier - the first failure ends the run, so these are all schedules; symbolic schedules incl. short writes in the thorough tier): on_complete Ok implies nothing failed, all buffers flushed before the first rename, all files complete and renamed; any Err implies no rename. A read/verify error ends the driver with exit 1 before on_complete; a missing blk file is an Err.",
   note="Partial: SIGKILL instants, kernel rename atomicity, RLIMIT_FSIZE and leftover *.tmp files are real-FS behaviour and outside. io::Error::is_interrupted/source/cause are cut (ghost file never reports EINTR). Truncated-file reads are thorough tier only."),
 "C11": dict(claimed=True, tech="bounded model checking (Kani/CBMC) of XorReader over seek_bufread::BufReader",
   text="For enumerated key lengths / buffer capacities and symbolic key bytes, file bytes, seek positions and read lengths, every byte returned equals file[pos]^key[pos mod len].",
   note="Outside: key lengths other than listed; 32 KiB production buffer (capacity-generic code)."),
 "C12": dict(claimed=True, tech="bounded model checking (Kani/CBMC) of read_block with/without AuxPoW section",
   text="For boundary (version, threshold) pairs and enumerated section shapes with symbolic content the section is consumed exactly and header/tx fields come from behind it.",
   note="Outside: long merkle branches, big parent coinbases."),
 "C14": dict(claimed=True, tech="bounded model checking (Kani/CBMC): automatic panic/overflow/bounds checks on every harness + long-script sweeps + non-interference",
   text="No panic, overflow or OOB in the script evaluators and tx reader for every content within the enumerated shapes, including counter-boundary sweeps; scriptSig/witness bytes do not influence other fields.",
   note="Outside: irregular scripts of 10-100 KB."),
 "C15": dict(claimed=True, tech="bounded model checking (Kani/CBMC): exact-arithmetic differential harnesses",
   text="get_mean equals the exact u64-sum mean (bit-exact IEEE division) for every slice of <=4 u32; get_base_reward and the accumulators of SimpleStats::on_block equal an in-harness recomputation for every symbolic block content within the bound.",
   note="Partial: the text report's float formatting ({:.2}/{:.8}) is outside (float-to-decimal is out of reach for bit-blasting)."),
 "C16": dict(claimed=True, tech="bounded model checking (Kani/CBMC) of OP_RETURN payload extraction on both script paths",
   text="For each push form and payload length within the bound and every payload content, the OpReturn text equals the pushed payload (valid UTF-8) or is empty; OpReturn::on_block prints exactly the non-empty ones in order (the printed lines compared byte for byte, format model).",
   note="Outside: payloads of thousands of bytes."),
 "C17": dict(claimed=True, tech="bounded model checking (Kani/CBMC): one inductive step of the close rule from an arbitrary invariant-satisfying state",
   text="One get_block step from any open/closed state satisfying the invariant re-establishes it for the next height, for every layout of <=4 heights over 2-3 files.",
   note="Outside: hundreds of files, process-wide descriptor table."),
}
NA = {
 "C13": "quantifies over rayon thread schedules and sequences of whole-process runs on a real file system / LevelDB log; Kani/CBMC do not model threads and the overlay must replace rayon by a sequential model that assumes exactly the order preservation the property asserts — a verdict would be about the model, not the code (DESIGN.md §4)",
}

def main():
    props = [json.loads(l) for l in open(os.path.join(VERIF, "properties.jsonl"))]
    have = {}
    for s in overlay.collect_specs(None):
        for i in s["ids"]:
            have.setdefault(i, 0)
            have[i] += 1
    checks, na = [], []
    for p in props:
        i = p["id"]
        if i in NA:
            na.append({"property_id": i, "reason": NA[i]})
            continue
        e = P[i]
        if not e["claimed"] or not have.get(i):
            na.append({"property_id": i, "reason": "check not built yet in this round (design in DESIGN.md §3); not claimed until its harnesses run"})
            continue
        checks.append({
            "property_id": i,
            "quick_cmd": f"bin/vcheck {i} quick",
            "thorough_cmd": f"bin/vcheck {i} thorough",
            "evidence_file": f"evidence/{i}.json",
            "replay_cmd_template": f"bin/vreplay {{path}}",
            "engine": "vcheck",
            "level_claimed": {"category": "model_checking", "text": e["text"], "design_ref": f"DESIGN.md §3 {i}"},
            "level_note": TRUST + e["note"],
            "technique": e["tech"],
        })
    m = {
        "version": 1,
        "setup_cmd": "bin/setup",
        "hooks": {"guard": "cfg(kani) — set only inside the scratch overlay regenerated from /repo on every run; there are no hook commits in /repo",
                  "enable": "none needed: bin/vcheck copies /repo's working tree to a scratch crate, appends #[cfg(kani)] child modules, links the library models and builds it with cargo kani",
                  "baseline_off_cmd": "cd /repo && cargo test --workspace --no-fail-fast --offline",
                  "source_commits": [], "add_only": True},
        "engines": [{"name": "vcheck", "path": "bin/vcheck", "serves_properties": [c["property_id"] for c in checks],
                     "kind_free_text": "Kani 0.68 proof harnesses over the real code (CBMC 6.11 + CaDiCaL); overlay regenerated per run; counterexamples replayed natively via Kani concrete playback before a VIOLATION is printed"}],
        "checks": checks,
        "notes": "Exit 2 of a check = inconclusive (timeout/OOM/vacuity/unwinding/non-reproducing counterexample): never a pass and never a VIOLATION. Known findings: known_findings.json.",
        "not_applicable": na,
    }
    json.dump(m, open(os.path.join(VERIF, "MANIFEST.json"), "w"), indent=1)
    print("claimed:", [c["property_id"] for c in checks], "n/a:", [x["property_id"] for x in na])

if __name__ == "__main__":
    main()
