#!/usr/bin/env python3
"""Builds the verification overlay (DESIGN.md §1.2) from /repo's *current working tree*.

  copy  /repo/{src,Cargo.toml,Cargo.lock}  ->  <scratch>/ovl
  append to each anchored source file a child module  #[cfg(kani)] mod vk_<stem> { use super::*; <harness body> }
  rewrite a fixed list of `use`/dependency lines (cfg(kani)-guarded) to link the library models
  add an empty [workspace]

Nothing is written to /repo. A missing anchor line is a hard error (exit 2 upstream), never a verdict.
"""
import os, re, shutil, sys, json

VERIF = os.path.dirname(os.path.dirname(os.path.abspath(__file__)))
REPO = os.environ.get("VERIF_REPO", "/repo")

# `format!` / `println!` shadows: positional `{}` / `{: <N}` calls can be rendered by the structured model
# (verif_models::fmtm, selected per harness); everything else, and every harness that does not select it,
# goes through the real core::fmt.
FORMAT_SHADOW = """#[cfg(kani)]
macro_rules! format {
    ($fmt:literal $(, $arg:expr)* $(,)?) => { format!(@b $fmt; []; [__a0 __a1 __a2 __a3 __a4 __a5 __a6 __a7 __a8 __a9 __a10 __a11]; $($arg,)*) };
    (@b $fmt:literal; [$(($id:ident $e:expr))*]; [$($rest:ident)*]; ) => {
        // every argument is evaluated exactly once (like format_args!) and bound by reference
        match ($(&$e,)*) { ($($id,)*) => {
            if crate::verif_models::fmtm::use_structured($fmt) {
                #[allow(unused_imports)] use crate::verif_models::fmtm::{S1 as _, S2 as _, S3 as _};
                let mut __o = crate::verif_models::fmtm::Out::new($fmt);
                $( __o.lit(); (&&crate::verif_models::fmtm::W($id)).vshow(&mut __o); __o.pad(); )*
                crate::verif_models::fmtm::cross_check(__o.finish(), format_args!($fmt $(, $id)*))
            } else {
                crate::verif_models::fmtm::format(format_args!($fmt $(, $id)*))
            }
        } }
    };
    (@b $fmt:literal; [$(($id:ident $e:expr))*]; []; $($more:expr,)+) => { crate::verif_models::fmtm::format(format_args!($fmt $(, $e)* $(, $more)*)) };
    (@b $fmt:literal; [$($done:tt)*]; [$next:ident $($rest:ident)*]; $a:expr, $($more:expr,)*) => { format!(@b $fmt; [$($done)* ($next $a)]; [$($rest)*]; $($more,)*) };
    ($($t:tt)*) => { crate::verif_models::fmtm::format(format_args!($($t)*)) };
}
"""
PRINTLN_SHADOW = """#[cfg(kani)]
macro_rules! println {
    ($fmt:literal $(, $arg:expr)* $(,)?) => { println!(@b $fmt; []; [__a0 __a1 __a2 __a3 __a4 __a5 __a6 __a7 __a8 __a9 __a10 __a11]; $($arg,)*) };
    (@b $fmt:literal; [$(($id:ident $e:expr))*]; [$($rest:ident)*]; ) => {
        match ($(&$e,)*) { ($($id,)*) => {
            if crate::verif_models::fmtm::use_structured($fmt) {
                #[allow(unused_imports)] use crate::verif_models::fmtm::{S1 as _, S2 as _, S3 as _};
                let mut __o = crate::verif_models::fmtm::Out::new($fmt);
                $( __o.lit(); (&&crate::verif_models::fmtm::W($id)).vshow(&mut __o); __o.pad(); )*
                crate::verif_models::fmtm::println_structured(crate::verif_models::fmtm::cross_check(__o.finish(), format_args!($fmt $(, $id)*)))
            } else {
                crate::verif_models::fmtm::println(format_args!($fmt $(, $id)*))
            }
        } }
    };
    (@b $fmt:literal; [$(($id:ident $e:expr))*]; []; $($more:expr,)+) => { crate::verif_models::fmtm::println(format_args!($fmt $(, $e)* $(, $more)*)) };
    (@b $fmt:literal; [$($done:tt)*]; [$next:ident $($rest:ident)*]; $a:expr, $($more:expr,)*) => { println!(@b $fmt; [$($done)* ($next $a)]; [$($rest)*]; $($more,)*) };
    ($($t:tt)*) => { crate::verif_models::fmtm::println(format_args!($($t)*)) };
}
"""

class OverlayError(Exception):
    pass

# (file, module path, names redirected to the model under cfg(kani), model path, tag). The `use` item may be a single
# name or a brace list (also spread over several lines); names not listed keep coming from the real module, so a changed
# tree that imports more (`use std::collections::{HashMap, HashSet};`) still gets its overlay.
REWRITES = [
    ("src/blockchain/parser/index.rs", "std::collections", ["HashMap"], "crate::verif_models", "hashmap"),
    ("src/blockchain/parser/index.rs", "rusty_leveldb", ["LdbIterator", "Options", "DB"], "crate::verif_models::leveldb", "leveldb"),
    ("src/blockchain/parser/chain.rs", "std::collections", ["HashMap"], "crate::verif_models", "hashmap"),
    ("src/blockchain/parser/blkfile.rs", "std::collections", ["HashMap"], "crate::verif_models", "hashmap"),
    ("src/blockchain/parser/blkfile.rs", "std::fs", ["self", "DirEntry", "File"], "crate::verif_models::fs", "fs"),
    ("src/blockchain/parser/mod.rs", "std", ["process"], "crate::verif_models", "process"),
    ("src/blockchain/parser/mod.rs", "std::time", ["Duration", "Instant"], "crate::verif_models::time", "time"),
    ("src/callbacks/common.rs", "std::collections", ["HashMap"], "crate::verif_models", "hashmap"),
    ("src/callbacks/unspentcsvdump.rs", "std::collections", ["HashMap"], "crate::verif_models", "hashmap"),
    ("src/callbacks/unspentcsvdump.rs", "std::fs", ["self", "File"], "crate::verif_models::fs", "fs"),
    ("src/callbacks/balances.rs", "std::collections", ["HashMap"], "crate::verif_models", "hashmap"),
    ("src/callbacks/balances.rs", "std::fs", ["self", "File"], "crate::verif_models::fs", "fs"),
    ("src/callbacks/csvdump.rs", "std::fs", ["self", "File"], "crate::verif_models::fs", "fs"),
    ("src/callbacks/simplestats.rs", "std::collections", ["HashMap"], "crate::verif_models", "hashmap"),
]

# function-entry hooks (cfg(kani), scratch copy only): (file, regex of the fn signature up to `{`, inserted text, tag)
HOOKS = [
    ("src/blockchain/parser/blkfile.rs",
     r"pub fn read_block\(&mut self, offset: u64, coin: &CoinType\) -> Result<Block> \{",
     """
        #[cfg(kani)]
        if unsafe { crate::verif_models::hooks::RB_STUB_ON.v } {
            self.open()?;
            return Ok(crate::verif_models::hooks::marker_block(crate::verif_models::hooks::file_id(&self.path), offset as u64));
        }""", "hook_read_block"),
    ("src/blockchain/parser/chain.rs",
     r"pub fn get_block\(&mut self, height: u64\) -> Result<Option<Block>> \{",
     """
        #[cfg(kani)]
        if unsafe { crate::verif_models::hooks::GB_STUB_ON.v } {
            return crate::verif_models::hooks::get_block_contract(height);
        }""", "hook_get_block"),
]

ANNOT = re.compile(r"^\s*//@\s*(.*)$")

def parse_harness_file(path):
    """Returns (target_source, [spec dicts]) for a harness file."""
    target = None
    specs = []
    with open(path) as f:
        for line in f:
            m = re.match(r"^//#\s*target:\s*(\S+)", line)
            if m:
                target = m.group(1)
            m = ANNOT.match(line)
            if m:
                d = {}
                for tok in m.group(1).split():
                    if "=" in tok:
                        k, v = tok.split("=", 1)
                        d[k] = v
                if "name" in d and "id" in d:
                    d["ids"] = d["id"].split(",")
                    d.setdefault("tier", "quick")
                    d["timeout"] = int(d.get("timeout", "600"))
                    d["mem"] = int(d.get("mem", "12"))
                    d["file"] = os.path.basename(path)
                    specs.append(d)
    if target is None:
        raise OverlayError(f"{path}: no //# target: header")
    return target, specs

def all_harness_files():
    hd = os.path.join(VERIF, "harness")
    return sorted(os.path.join(hd, f) for f in os.listdir(hd) if f.endswith(".rs") and not f.startswith("_"))

def module_path(target, stem):
    # src/blockchain/parser/index.rs -> blockchain::parser::index::vk_<stem>
    rel = target[len("src/"):-len(".rs")]
    parts = rel.split("/")
    if parts[-1] == "mod":
        parts = parts[:-1]
    if parts == ["main"]:
        parts = []
    return "::".join(parts + ["vk_" + stem])

def collect_specs(prop_id=None):
    out = []
    for hf in all_harness_files():
        target, specs = parse_harness_file(hf)
        stem = os.path.basename(hf)[:-3]
        for s in specs:
            if prop_id is None or prop_id in s["ids"]:
                s = dict(s)
                s["target"] = target
                s["module"] = module_path(target, stem)
                s["full"] = s["module"] + "::" + s["name"]
                out.append(s)
    return out

def build(dest, prop_id=None, files=None):
    """Creates the overlay crate in `dest`. Returns a dict describing what was done."""
    if os.path.exists(dest):
        shutil.rmtree(dest)
    os.makedirs(dest)
    shutil.copytree(os.path.join(REPO, "src"), os.path.join(dest, "src"))
    for f in ("Cargo.toml", "Cargo.lock"):
        shutil.copy(os.path.join(REPO, f), os.path.join(dest, f))
    info = {"rewrites": [], "harness_files": [], "repo": REPO}

    # harness files to include
    hfiles = []
    for hf in all_harness_files():
        target, specs = parse_harness_file(hf)
        if files is not None:
            if os.path.basename(hf) in files:
                hfiles.append((hf, target))
        elif prop_id is None or any(prop_id in s["ids"] for s in specs):
            hfiles.append((hf, target))
    # transitive `//# needs: a.rs b.rs` (helper constructors living in other harness files)
    allh = {os.path.basename(h): h for h in all_harness_files()}
    changed = True
    while changed:
        changed = False
        have = {os.path.basename(h) for h, _ in hfiles}
        for hf, _t in list(hfiles):
            m = re.search(r"^//#\s*needs:\s*(.*)$", open(hf).read(), re.M)
            if not m:
                continue
            for dep in m.group(1).split():
                if dep not in have:
                    if dep not in allh:
                        raise OverlayError(f"{hf}: needs unknown harness file {dep}")
                    t, _s = parse_harness_file(allh[dep])
                    hfiles.append((allh[dep], t))
                    have.add(dep)
                    changed = True
    # helper files (prefixed _) are included into every harness module on demand via include!
    shutil.copytree(os.path.join(VERIF, "harness"), os.path.join(dest, "verif_harness"))

    needed_tags = set()
    for hf, target in hfiles:
        body = open(hf).read()
        m = re.search(r"^//#\s*models:\s*(.*)$", body, re.M)
        if m:
            needed_tags.update(m.group(1).split())

    # library models: rewrite use lines
    for rel, path, names, model, tag in REWRITES:
        p = os.path.join(dest, rel)
        if not os.path.exists(p):
            if tag in needed_tags:
                raise OverlayError(f"anchor file missing: {rel}")
            continue
        s = open(p).read()
        rx = re.compile(r"^([ \t]*)use\s+" + re.escape(path) + r"::(\{[^}]*\}|\w+)\s*;[ \t]*$", re.M)
        hit = None
        for m in rx.finditer(s):
            items = [i.strip() for i in m.group(2).strip("{}").split(",") if i.strip()]
            if any(i in names for i in items):
                hit = (m, items)
                break
        if not hit:
            if tag in needed_tags:
                raise OverlayError(f"anchor line not found in {rel}: use {path}::{{..{','.join(names)}..}}")
            continue
        m, items = hit
        red = [i for i in items if i in names]
        rest = [i for i in items if i not in names]
        ind = m.group(1)
        orig = " ".join(m.group(0).split())
        new = f"{ind}#[cfg(not(kani))] {orig}\n{ind}#[cfg(kani)] use {model}::{{{', '.join(red)}}};"
        if rest:
            new += f"\n{ind}#[cfg(kani)] use {path}::{{{', '.join(rest)}}};"
        s = s[:m.start()] + new + s[m.end():]
        open(p, "w").write(s)
        info["rewrites"].append(f"{rel}: `{orig}` -> `use {model}::{{{', '.join(red)}}}` (cfg(kani))")

    # function-entry hooks
    for rel, pat, text, tag in HOOKS:
        p = os.path.join(dest, rel)
        if not os.path.exists(p):
            if tag in needed_tags:
                raise OverlayError(f"anchor file missing: {rel}")
            continue
        s = open(p).read()
        m = re.search(pat, s)
        if not m:
            if tag in needed_tags:
                raise OverlayError(f"anchor signature not found in {rel}: {pat}")
            continue
        s = s[:m.end()] + text + s[m.end():]
        open(p, "w").write(s)
        info["rewrites"].append(f"{rel}: cfg(kani) entry hook `{tag}` (inert unless a harness enables it)")

    # shadow `format!` in the file-producing callbacks (see verif_models::fmtm)
    for rel in ("src/callbacks/csvdump.rs", "src/callbacks/unspentcsvdump.rs", "src/callbacks/balances.rs",
                "src/blockchain/parser/chain.rs", "src/blockchain/proto/block.rs"):
        p = os.path.join(dest, rel)
        if os.path.exists(p):
            s = open(p).read()
            s = FORMAT_SHADOW + s
            open(p, "w").write(s)
            info["rewrites"].append(f"{rel}: cfg(kani) `format!` routed through verif_models::fmtm (real core::fmt unless a harness selects constant rows or the structured format model)")

    p = os.path.join(dest, "src/callbacks/opreturn.rs")
    if os.path.exists(p):
        s = open(p).read()
        s = PRINTLN_SHADOW + s
        open(p, "w").write(s)
        info["rewrites"].append("src/callbacks/opreturn.rs: cfg(kani) `println!` routed to verif_models::fmtm (ghost line buffer; real core::fmt unless a harness selects the structured format model)")

    # models module
    shutil.copy(os.path.join(VERIF, "models", "verif_models.rs"), os.path.join(dest, "src", "verif_models.rs"))
    shutil.copytree(os.path.join(VERIF, "models", "rayon"), os.path.join(dest, "verif_rayon"))
    mp = os.path.join(dest, "src", "main.rs")
    s = open(mp).read()
    s += "\n#[cfg(kani)]\npub mod verif_models;\n"
    open(mp, "w").write(s)

    # Cargo.toml: rayon -> sequential model; empty workspace
    cp = os.path.join(dest, "Cargo.toml")
    s = open(cp).read()
    s2, n = re.subn(r"^rayon\s*=.*$", 'rayon = { path = "verif_rayon" }', s, flags=re.M)
    if n != 1:
        raise OverlayError("Cargo.toml: rayon dependency line not found")
    s2 += "\n[workspace]\n"
    s2 += '\n[lints.rust]\nunexpected_cfgs = { level = "allow" }\n'
    open(cp, "w").write(s2)
    info["rewrites"].append("Cargo.toml: rayon -> verif_rayon (sequential, order-preserving model)")

    # append harness modules
    for hf, target in hfiles:
        p = os.path.join(dest, target)
        if not os.path.exists(p):
            raise OverlayError(f"anchored source file missing: {target}")
        stem = os.path.basename(hf)[:-3]
        body = open(hf).read()
        # stubs of crate-local functions are dropped when the function does not exist in this tree (e.g. a helper
        # introduced by a repair and removed again by the change under test): the real code then runs un-cut
        def _keep(line):
            m = re.match(r"\s*#\[kani::stub\(crate::([A-Za-z0-9_:]+)::([A-Za-z0-9_]+)\s*,", line)
            if not m or m.group(1).startswith("verif_models"):
                return True
            name = m.group(2)
            for root, _d, fs_ in os.walk(os.path.join(dest, "src")):
                for fn in fs_:
                    if fn.endswith(".rs") and re.search(r"\bfn\s+" + name + r"\b", open(os.path.join(root, fn)).read()):
                        return True
            info["rewrites"].append(f"{os.path.basename(hf)}: stub of crate::{m.group(1)}::{name} dropped (function not present in this tree)")
            return False
        body = "\n".join(l for l in body.split("\n") if _keep(l))
        s = open(p).read()
        s += f"\n\n#[cfg(kani)]\n#[allow(unused, static_mut_refs, non_snake_case, clippy::all)]\npub mod vk_{stem} {{\n    use super::*;\n{body}\n// @@VK_END vk_{stem}\n}}\n"
        open(p, "w").write(s)
        info["harness_files"].append(f"{os.path.basename(hf)} -> {target}")
    return info

if __name__ == "__main__":
    dest = sys.argv[1]
    pid = sys.argv[2] if len(sys.argv) > 2 else None
    try:
        print(json.dumps(build(dest, pid), indent=1))
    except OverlayError as e:
        print("overlay error:", e, file=sys.stderr)
        sys.exit(2)
