//! Library models linked into the verification overlay under cfg(kani) only.
//! (DESIGN.md §1.5.) They replace libraries CBMC cannot execute. Each model's contract is
//! stated next to it; every harness that uses one lists it in its evidence file.
//!
//! Rule: models are *source-level substitutions* (a rewritten `use` line in the scratch copy),
//! so the same model code runs under CBMC and in the native concrete playback of a
//! counterexample; all nondeterminism is drawn with kani::any() in the same order in both.
#![allow(dead_code, static_mut_refs, unused_imports, clippy::all)]

// ---------------------------------------------------------------------------------------
// HashMap: fixed-capacity slot array. Contract: finite map; insert on an existing key
// replaces the value and returns the old one; iteration order unspecified (here: slot order).
// Exceeding CAP is a model panic ("verif model: HashMap capacity exceeded") which the driver
// reports as inconclusive, never as a verdict.
// ---------------------------------------------------------------------------------------
pub const CAP: usize = 6;

pub struct HashMap<K, V> {
    pub slots: [Option<(K, V)>; CAP],
}

macro_rules! each_slot {
    ($i:ident, $body:block) => {{
        { let $i: usize = 0; $body }
        { let $i: usize = 1; $body }
        { let $i: usize = 2; $body }
        { let $i: usize = 3; $body }
        { let $i: usize = 4; $body }
        { let $i: usize = 5; $body }
    }};
}

impl<K: PartialEq, V> HashMap<K, V> {
    pub fn new() -> Self {
        HashMap { slots: [None, None, None, None, None, None] }
    }
    pub fn with_capacity(_c: usize) -> Self {
        Self::new()
    }
    pub fn len(&self) -> usize {
        let mut n = 0;
        each_slot!(i, { if self.slots[i].is_some() { n += 1; } });
        n
    }
    pub fn is_empty(&self) -> bool {
        self.len() == 0
    }
    fn find(&self, k: &K) -> usize {
        let mut idx = CAP;
        each_slot!(i, {
            if idx == CAP {
                if let Some(kv) = self.slots[i].as_ref() { if kv.0 == *k { idx = i; } }
            }
        });
        idx
    }
    fn free(&self) -> usize {
        let mut idx = CAP;
        each_slot!(i, { if idx == CAP && self.slots[i].is_none() { idx = i; } });
        idx
    }
    pub fn insert(&mut self, k: K, v: V) -> Option<V> {
        let idx = self.find(&k);
        if idx < CAP {
            let kv = self.slots[idx].as_mut().unwrap();
            return Some(core::mem::replace(&mut kv.1, v));
        }
        let f = self.free();
        if f == CAP {
            panic!("verif model: HashMap capacity exceeded");
        }
        self.slots[f] = Some((k, v));
        None
    }
    pub fn get(&self, k: &K) -> Option<&V> {
        let idx = self.find(k);
        if idx == CAP { None } else { self.slots[idx].as_ref().map(|kv| &kv.1) }
    }
    pub fn get_mut(&mut self, k: &K) -> Option<&mut V> {
        let idx = self.find(k);
        if idx == CAP { None } else { self.slots[idx].as_mut().map(|kv| &mut kv.1) }
    }
    pub fn contains_key(&self, k: &K) -> bool {
        self.find(k) != CAP
    }
    pub fn remove(&mut self, k: &K) -> Option<V> {
        let idx = self.find(k);
        if idx == CAP { None } else { self.slots[idx].take().map(|kv| kv.1) }
    }
    pub fn retain<F: FnMut(&K, &mut V) -> bool>(&mut self, mut f: F) {
        each_slot!(i, {
            let keep = match self.slots[i].as_mut() { Some(kv) => f(&kv.0, &mut kv.1), None => true };
            if !keep { self.slots[i] = None; }
        });
    }
    pub fn keys(&self) -> impl Iterator<Item = &K> {
        self.slots.iter().filter_map(|s| s.as_ref().map(|kv| &kv.0))
    }
    pub fn values(&self) -> impl Iterator<Item = &V> {
        self.slots.iter().filter_map(|s| s.as_ref().map(|kv| &kv.1))
    }
    pub fn iter(&self) -> impl Iterator<Item = (&K, &V)> {
        self.slots.iter().filter_map(|s| s.as_ref().map(|kv| (&kv.0, &kv.1)))
    }
    pub fn entry(&mut self, k: K) -> Entry<'_, K, V> {
        Entry { map: self, key: k }
    }
}

pub struct Entry<'a, K, V> {
    map: &'a mut HashMap<K, V>,
    key: K,
}
impl<'a, K: PartialEq, V> Entry<'a, K, V> {
    pub fn or_insert(self, default: V) -> &'a mut V {
        let mut idx = self.map.find(&self.key);
        if idx == CAP {
            idx = self.map.free();
            if idx == CAP {
                panic!("verif model: HashMap capacity exceeded");
            }
            self.map.slots[idx] = Some((self.key, default));
        }
        self.map.slots[idx].as_mut().map(|kv| &mut kv.1).unwrap()
    }
}

impl<'a, K: PartialEq, V> IntoIterator for &'a HashMap<K, V> {
    type Item = (&'a K, &'a V);
    type IntoIter = core::iter::FilterMap<
        core::slice::Iter<'a, Option<(K, V)>>,
        fn(&'a Option<(K, V)>) -> Option<(&'a K, &'a V)>,
    >;
    fn into_iter(self) -> Self::IntoIter {
        fn pick<'b, K, V>(s: &'b Option<(K, V)>) -> Option<(&'b K, &'b V)> {
            s.as_ref().map(|kv| (&kv.0, &kv.1))
        }
        self.slots.iter().filter_map(pick::<K, V> as fn(&'a Option<(K, V)>) -> Option<(&'a K, &'a V)>)
    }
}

// ---------------------------------------------------------------------------------------
// LevelDB: DB::open returns a handle over a harness-provided sequence of (key, value) pairs.
// Contract assumed: LevelDB iterates in ascending bytewise key order with unique keys — the
// harness is responsible for laying records out in that order.
// ---------------------------------------------------------------------------------------
pub mod leveldb {
    use std::path::Path;
    pub const MAXREC: usize = 5;
    pub const KLEN: usize = 33;
    pub const VMAX: usize = 100;
    pub static mut N_REC: usize = 0;
    pub static mut KEYS: [[u8; KLEN]; MAXREC] = [[0; KLEN]; MAXREC];
    pub static mut KEYLEN: [usize; MAXREC] = [KLEN; MAXREC];
    pub static mut VALS: [[u8; VMAX]; MAXREC] = [[0; VMAX]; MAXREC];
    pub static mut VLEN: [usize; MAXREC] = [0; MAXREC];

    #[derive(Debug)]
    pub struct Status;
    impl std::fmt::Display for Status {
        fn fmt(&self, f: &mut std::fmt::Formatter) -> std::fmt::Result {
            f.write_str("status")
        }
    }
    impl std::error::Error for Status {}
    #[derive(Default)]
    pub struct Options;
    pub struct DB;
    pub struct DBIterator {
        pos: usize,
    }
    impl DB {
        pub fn open<P: AsRef<Path>>(_name: P, _opt: Options) -> Result<DB, Status> {
            Ok(DB)
        }
        pub fn new_iter(&mut self) -> Result<DBIterator, Status> {
            Ok(DBIterator { pos: 0 })
        }
    }
    pub trait LdbIterator {
        fn advance(&mut self) -> bool;
        fn current(&self, key: &mut Vec<u8>, val: &mut Vec<u8>) -> bool;
    }
    impl LdbIterator for DBIterator {
        fn advance(&mut self) -> bool {
            self.pos += 1;
            self.pos <= unsafe { N_REC }
        }
        fn current(&self, key: &mut Vec<u8>, val: &mut Vec<u8>) -> bool {
            let i = self.pos - 1;
            unsafe {
                key.clear();
                key.extend_from_slice(&KEYS[i][..KEYLEN[i]]);
                val.clear();
                val.extend_from_slice(&VALS[i][..VLEN[i]]);
            }
            true
        }
    }
}

// ---------------------------------------------------------------------------------------
// fs: in-memory ghost files. `File` is identified by a small integer fd derived from the
// first byte of the path (b'0' + fd) or constructed directly with File::ghost(fd).
//  * write(): the k-th call fails iff FAULT_AT[k], is short (1 byte) iff SHORT_AT[k]; both
//    schedules are pre-drawn by the harness; accepted bytes are counted per fd and the first
//    LOGCAP bytes are kept.
//  * read()/seek(): over DATA[fd][..LEN[fd]] (harness-provided content), or, when FUNC_ON,
//    over an unbounded sparse file whose byte at position p is func_byte(fd, p) up to LEN64.
//  * rename(): records the call and snapshots the accepted-byte counters.
// Contract assumed: POSIX file semantics for sequential writes, positioned reads, and rename.
// ---------------------------------------------------------------------------------------
pub mod fs {
    use std::io::{self, Read, Seek, SeekFrom, Write};
    use std::path::{Path, PathBuf};

    pub const NFILES: usize = 8;
    pub const FSIZE: usize = 256;
    pub const LOGCAP: usize = 96;

    pub static mut DATA: [[u8; FSIZE]; NFILES] = [[0; FSIZE]; NFILES];
    pub static mut LEN: [usize; NFILES] = [0; NFILES];
    pub static mut EXISTS: [bool; NFILES] = [true; NFILES];
    pub static mut OPENS: [usize; NFILES] = [0; NFILES];
    pub static mut LIVE: [usize; NFILES] = [0; NFILES]; // open handles currently alive

    pub const NSCHED: usize = 12;
    pub static mut FAULT_AT: [bool; NSCHED] = [false; NSCHED];
    pub static mut SHORT_AT: [bool; NSCHED] = [false; NSCHED];
    pub static mut WRITE_FAILED: bool = false;
    pub static mut WRITE_CALLS: usize = 0;
    pub static mut ACCEPTED: [usize; NFILES] = [0; NFILES];
    pub static mut WLOG: [[u8; LOGCAP]; NFILES] = [[0; LOGCAP]; NFILES];
    pub static mut FLUSHES: [usize; NFILES] = [0; NFILES];

    pub static mut RENAMES: usize = 0;
    pub static mut SNAP_AT_FIRST_RENAME: [usize; NFILES] = [0; NFILES];
    pub static mut RENAME_FAIL_AT: usize = usize::MAX;
    pub const NAMECAP: usize = 40;
    pub static mut RENAME_TO: [[u8; NAMECAP]; 4] = [[0; NAMECAP]; 4];
    pub static mut RENAME_TO_LEN: [usize; 4] = [0; 4];
    pub static mut RENAME_FROM: [[u8; NAMECAP]; 4] = [[0; NAMECAP]; 4];
    pub static mut RENAME_FROM_LEN: [usize; 4] = [0; 4];

    // sparse "function" files for far offsets
    pub static mut FUNC_ON: bool = false;
    pub static mut LEN64: [u64; NFILES] = [0; NFILES];
    pub static mut FUNC_SALT: [u8; NFILES] = [0; NFILES];
    pub fn func_byte(fd: usize, pos: u64) -> u8 {
        let s = unsafe { FUNC_SALT[fd] };
        (pos as u8) ^ ((pos >> 8) as u8).wrapping_mul(3) ^ ((pos >> 32) as u8).wrapping_mul(7) ^ s
    }

    pub struct File {
        pub fd: usize,
        pub pos: u64,
    }

    impl File {
        pub fn ghost(fd: usize) -> File {
            unsafe { LIVE[fd] += 1; }
            File { fd, pos: 0 }
        }
        fn fd_of<P: AsRef<Path>>(p: P) -> usize {
            let b = p.as_ref().as_os_str().as_encoded_bytes();
            if b.is_empty() { 0 } else { (b[b.len() - 1].wrapping_sub(b'0') as usize) % NFILES }
        }
        pub fn open<P: AsRef<Path>>(p: P) -> io::Result<File> {
            let fd = Self::fd_of(p);
            unsafe {
                if !EXISTS[fd] {
                    return Err(io::Error::from(io::ErrorKind::NotFound));
                }
                OPENS[fd] += 1;
            }
            Ok(File::ghost(fd))
        }
        pub fn create<P: AsRef<Path>>(p: P) -> io::Result<File> {
            let fd = Self::fd_of(p);
            unsafe { ACCEPTED[fd] = 0; LEN[fd] = 0; EXISTS[fd] = true; }
            Ok(File::ghost(fd))
        }
    }
    impl Drop for File {
        fn drop(&mut self) {
            unsafe { LIVE[self.fd] -= 1; }
        }
    }

    impl Write for File {
        fn write(&mut self, buf: &[u8]) -> io::Result<usize> {
            unsafe {
                let call = WRITE_CALLS;
                WRITE_CALLS += 1;
                // fault schedule pre-drawn by the harness (no kani::any() here: the native replay
                // must see the same schedule whatever the number of write calls)
                if call < NSCHED && FAULT_AT[call] {
                    WRITE_FAILED = true;
                    return Err(io::Error::from(io::ErrorKind::Other));
                }
                let mut n = buf.len();
                if call < NSCHED && SHORT_AT[call] && n > 1 {
                    n = 1;
                }
                let fd = self.fd;
                let mut i = 0;
                while i < n {
                    let at = ACCEPTED[fd] + i;
                    if at < LOGCAP { WLOG[fd][at] = buf[i]; }
                    i += 1;
                }
                ACCEPTED[fd] += n;
                Ok(n)
            }
        }
        fn flush(&mut self) -> io::Result<()> {
            unsafe { FLUSHES[self.fd] += 1; }
            Ok(())
        }
    }

    impl Read for File {
        fn read(&mut self, buf: &mut [u8]) -> io::Result<usize> {
            unsafe {
                if FUNC_ON {
                    let len = LEN64[self.fd];
                    if self.pos >= len { return Ok(0); }
                    let avail = len - self.pos;
                    let n = if (buf.len() as u64) < avail { buf.len() } else { avail as usize };
                    let mut i = 0;
                    while i < n { buf[i] = func_byte(self.fd, self.pos + i as u64); i += 1; }
                    self.pos += n as u64;
                    return Ok(n);
                }
                let len = LEN[self.fd] as u64;
                if self.pos >= len { return Ok(0); }
                let avail = (len - self.pos) as usize;
                let n = if buf.len() < avail { buf.len() } else { avail };
                let p = self.pos as usize;
                let mut i = 0;
                while i < n { buf[i] = DATA[self.fd][p + i]; i += 1; }
                self.pos += n as u64;
                Ok(n)
            }
        }
    }
    impl Seek for File {
        fn seek(&mut self, pos: SeekFrom) -> io::Result<u64> {
            let len = unsafe { if FUNC_ON { LEN64[self.fd] } else { LEN[self.fd] as u64 } };
            let np: i128 = match pos {
                SeekFrom::Start(p) => p as i128,
                SeekFrom::Current(d) => self.pos as i128 + d as i128,
                SeekFrom::End(d) => len as i128 + d as i128,
            };
            if np < 0 || np > u64::MAX as i128 {
                return Err(io::Error::from(io::ErrorKind::InvalidInput));
            }
            self.pos = np as u64;
            Ok(self.pos)
        }
    }

    fn copy_name(p: &Path, dst: &mut [u8; NAMECAP]) -> usize {
        let b = p.as_os_str().as_encoded_bytes();
        let n = if b.len() < NAMECAP { b.len() } else { NAMECAP };
        let mut i = 0;
        while i < n { dst[i] = b[i]; i += 1; }
        n
    }

    pub fn rename<P: AsRef<Path>, Q: AsRef<Path>>(from: P, to: Q) -> io::Result<()> {
        unsafe {
            if RENAMES == RENAME_FAIL_AT {
                return Err(io::Error::from(io::ErrorKind::Other));
            }
            if RENAMES == 0 { SNAP_AT_FIRST_RENAME = ACCEPTED; }
            if RENAMES < 4 {
                RENAME_TO_LEN[RENAMES] = copy_name(to.as_ref(), &mut RENAME_TO[RENAMES]);
                RENAME_FROM_LEN[RENAMES] = copy_name(from.as_ref(), &mut RENAME_FROM[RENAMES]);
            }
            RENAMES += 1;
        }
        Ok(())
    }

    // pass-throughs so that `fs::` paths used by code outside the verified functions still compile
    pub use std::fs::{metadata, read_dir, read_link, DirEntry};
    pub fn _unused(_p: PathBuf) {}
}

// ---------------------------------------------------------------------------------------
// process / time: exit records the code and ends the path; Instant::now is a constant.
// ---------------------------------------------------------------------------------------
pub mod process {
    pub static mut EXIT_CODE: i32 = -1;
    pub static mut EXITED: bool = false;
    /// Hook evaluated at exit time (assertions about the state when the process would die).
    pub static mut AT_EXIT: Option<fn(i32)> = None;
    pub struct ExitMarker(pub i32);
    pub fn exit(code: i32) -> ! {
        unsafe {
            EXIT_CODE = code;
            EXITED = true;
            if let Some(f) = AT_EXIT { f(code); }
        }
        exit_end(code)
    }
    #[cfg(test)]
    fn exit_end(code: i32) -> ! {
        // native replay: the AT_EXIT assertions passed; end the test process cleanly
        println!("VERIF_EXIT_MODEL code={}", code);
        std::process::exit(0)
    }
    #[cfg(not(test))]
    fn exit_end(_code: i32) -> ! {
        kani::assume(false);
        loop {}
    }
}

pub mod time {
    pub use std::time::Duration;
    #[derive(Clone, Copy, PartialEq, Eq, PartialOrd, Ord, Debug)]
    pub struct Instant(pub u64);
    impl Instant {
        pub fn now() -> Instant {
            Instant(0)
        }
    }
    impl core::ops::Sub<Instant> for Instant {
        type Output = Duration;
        fn sub(self, o: Instant) -> Duration {
            Duration::from_secs(self.0.saturating_sub(o.0))
        }
    }
}

// ---------------------------------------------------------------------------------------
// ghost: uninterpreted hashes and recording encoders (used through #[kani::stub]).
// Rule: stubs never call kani::any(); symbolic digests are pre-drawn by the harness with
// ghost::init(kani::any()), so the native concrete playback draws exactly the same values.
// Dual-mode oracle helpers: under CBMC they check the ghost call log, in the native replay
// (cfg(test), stubs not applied) they compute the real function. The harness assertions are
// therefore the same source text in both modes.
// ---------------------------------------------------------------------------------------
pub mod ghost {
    use bitcoin::hashes::{hash160, sha256, sha256d, Hash};
    use std::fmt;

    pub const MAXCALLS: usize = 12;
    pub const PRE: usize = 272;
    pub static mut DIGESTS: [[u8; 32]; MAXCALLS] = [[0; 32]; MAXCALLS];
    pub static mut N_FIN: usize = 0;
    pub static mut CUR: [u8; PRE] = [0; PRE];
    pub static mut CUR_LEN: usize = 0;
    pub static mut LOG: [[u8; PRE]; MAXCALLS] = [[0; PRE]; MAXCALLS];
    pub static mut LOG_LEN: [usize; MAXCALLS] = [0; MAXCALLS];
    pub static mut LOG_KIND: [u8; MAXCALLS] = [0; MAXCALLS]; // 1 = sha256d, 2 = hash160

    pub fn init(d: [[u8; 32]; MAXCALLS]) {
        unsafe { DIGESTS = d; }
    }

    pub fn stub_engine_input(_e: &mut sha256::HashEngine, data: &[u8]) {
        unsafe {
            let l = CUR_LEN;
            let n = data.len();
            // element loops, not copy_from_slice: CBMC's memcpy model on these arrays is far slower [measured]
            if l + n <= PRE {
                let mut i = 0;
                while i < n { CUR[l + i] = data[i]; i += 1; }
            }
            CUR_LEN = l + n;
        }
    }
    fn fin(kind: u8) -> [u8; 32] {
        unsafe {
            let k = N_FIN;
            if k >= MAXCALLS {
                panic!("verif model: hash call log capacity exceeded");
            }
            let mut i = 0;
            while i < CUR_LEN && i < PRE { LOG[k][i] = CUR[i]; i += 1; }
            LOG_LEN[k] = CUR_LEN;
            LOG_KIND[k] = kind;
            CUR_LEN = 0;
            N_FIN = k + 1;
            DIGESTS[k]
        }
    }
    pub fn stub_sha256d_fin(_e: sha256::HashEngine) -> sha256d::Hash {
        sha256d::Hash::from_byte_array(fin(1))
    }
    pub fn stub_hash160_fin(_e: sha256::HashEngine) -> hash160::Hash {
        let d = fin(2);
        let mut o = [0u8; 20];
        let mut i = 0;
        while i < 20 { o[i] = d[i]; i += 1; }
        hash160::Hash::from_byte_array(o)
    }

    fn same(a: &[u8], b: &[u8]) -> bool {
        if a.len() != b.len() {
            return false;
        }
        let mut i = 0;
        while i < a.len() {
            if a[i] != b[i] {
                return false;
            }
            i += 1;
        }
        true
    }

    /// Digest of the k-th hash call, provided its pre-image and kind are as expected.
    /// CBMC mode: looks at the call log. Native replay: computes the real hash.
    #[cfg(not(test))]
    pub fn sha256d_call(k: usize, pre: &[u8]) -> Option<[u8; 32]> {
        unsafe {
            if k < N_FIN && LOG_KIND[k] == 1 && LOG_LEN[k] == pre.len() && pre.len() <= PRE && same(&LOG[k][..pre.len()], pre) {
                Some(DIGESTS[k])
            } else {
                None
            }
        }
    }
    #[cfg(test)]
    pub fn sha256d_call(_k: usize, pre: &[u8]) -> Option<[u8; 32]> {
        Some(sha256d::Hash::hash(pre).to_byte_array())
    }
    #[cfg(not(test))]
    pub fn hash160_call(k: usize, pre: &[u8]) -> Option<[u8; 20]> {
        unsafe {
            if k < N_FIN && LOG_KIND[k] == 2 && LOG_LEN[k] == pre.len() && pre.len() <= PRE && same(&LOG[k][..pre.len()], pre) {
                let mut o = [0u8; 20];
                let mut i = 0;
                while i < 20 { o[i] = DIGESTS[k][i]; i += 1; }
                Some(o)
            } else {
                None
            }
        }
    }
    #[cfg(test)]
    pub fn hash160_call(_k: usize, pre: &[u8]) -> Option<[u8; 20]> {
        Some(hash160::Hash::hash(pre).to_byte_array())
    }
    /// Number of hash computations performed (CBMC mode); natively unknown -> returns `expect`.
    #[cfg(not(test))]
    pub fn n_hash_calls(_expect: usize) -> usize {
        unsafe { N_FIN }
    }
    #[cfg(test)]
    pub fn n_hash_calls(expect: usize) -> usize {
        expect
    }

    // ---- encoders --------------------------------------------------------------------
    pub const ENC: usize = 272;
    pub static mut B58_CALLS: usize = 0;
    pub static mut B58_LEN: usize = 0;
    pub static mut B58: [u8; ENC] = [0; ENC];
    pub static mut B58CK_CALLS: usize = 0;
    pub static mut B58CK_LEN: usize = 0;
    pub static mut B58CK: [u8; ENC] = [0; ENC];
    pub static mut BECH_CALLS: usize = 0;
    pub static mut BECH_LEN: usize = 0;
    pub static mut BECH: [u8; ENC] = [0; ENC];
    pub static mut BECH_VER: u8 = 0xff;
    pub static mut BECH_HRP: [u8; 4] = [0; 4];
    pub static mut BECH_HRP_LEN: usize = 0;

    fn rec(dst: &mut [u8; ENC], data: &[u8]) -> usize {
        let n = data.len();
        if n <= ENC {
            let mut i = 0;
            while i < n { dst[i] = data[i]; i += 1; }
        }
        n
    }
    /// stub for bitcoin::base58::encode (fork-coin path): records payload, returns "A"
    pub fn stub_b58(data: &[u8]) -> String {
        unsafe {
            B58_CALLS += 1;
            B58_LEN = rec(&mut B58, data);
        }
        String::from("A")
    }
    /// stub for bitcoin::base58::encode_check_to_fmt (rust-bitcoin Address Display)
    pub fn stub_b58ck_fmt(f: &mut fmt::Formatter, data: &[u8]) -> fmt::Result {
        unsafe {
            B58CK_CALLS += 1;
            B58CK_LEN = rec(&mut B58CK, data);
        }
        f.write_str("A")
    }
    /// stub for bech32::segwit::encode_lower_to_fmt_unchecked
    pub fn stub_bech<W: fmt::Write>(f: &mut W, hrp: bitcoin::bech32::Hrp, v: bitcoin::bech32::Fe32, p: &[u8]) -> fmt::Result {
        unsafe {
            BECH_CALLS += 1;
            BECH_LEN = rec(&mut BECH, p);
            BECH_VER = v.to_u8();
            let h = hrp.as_bytes();
            BECH_HRP_LEN = h.len();
            let mut i = 0;
            while i < 4 && i < h.len() {
                BECH_HRP[i] = h[i];
                i += 1;
            }
        }
        f.write_str("B")
    }

    // Dual-mode address oracles. They never allocate under a symbolic condition (a merged
    // Some(String)/None makes CBMC's drop glue explode): `*_payload_is` says whether the encoder
    // was called exactly once with this payload (CBMC: ghost log; native: trivially true), and
    // `*_addr_ok` compares the produced text (CBMC: the stub's sentinel; native: the real encoding).
    #[cfg(not(test))]
    pub fn b58_payload_is(payload: &[u8]) -> bool {
        unsafe { B58_CALLS == 1 && B58_LEN == payload.len() && same(&B58[..payload.len()], payload) }
    }
    #[cfg(test)]
    pub fn b58_payload_is(_payload: &[u8]) -> bool {
        true
    }
    #[cfg(not(test))]
    pub fn b58_addr_ok(addr: Option<&str>, _payload: &[u8]) -> bool {
        addr == Some("A")
    }
    #[cfg(test)]
    pub fn b58_addr_ok(addr: Option<&str>, payload: &[u8]) -> bool {
        addr == Some(bitcoin::base58::encode(payload).as_str())
    }
    #[cfg(not(test))]
    pub fn b58ck_payload_is(payload: &[u8]) -> bool {
        unsafe { B58CK_CALLS == 1 && B58CK_LEN == payload.len() && same(&B58CK[..payload.len()], payload) }
    }
    #[cfg(test)]
    pub fn b58ck_payload_is(_payload: &[u8]) -> bool {
        true
    }
    #[cfg(not(test))]
    pub fn b58ck_addr_ok(addr: Option<&str>, _payload: &[u8]) -> bool {
        addr == Some("A")
    }
    #[cfg(test)]
    pub fn b58ck_addr_ok(addr: Option<&str>, payload: &[u8]) -> bool {
        addr == Some(bitcoin::base58::encode_check(payload).as_str())
    }
    #[cfg(not(test))]
    pub fn bech_payload_is(hrp: &str, ver: u8, prog: &[u8]) -> bool {
        unsafe {
            let h = hrp.as_bytes();
            BECH_CALLS == 1 && BECH_VER == ver && BECH_LEN == prog.len() && same(&BECH[..prog.len()], prog)
                && BECH_HRP_LEN == h.len() && same(&BECH_HRP[..h.len()], h)
        }
    }
    #[cfg(test)]
    pub fn bech_payload_is(_hrp: &str, _ver: u8, _prog: &[u8]) -> bool {
        true
    }
    #[cfg(not(test))]
    pub fn bech_addr_ok(addr: Option<&str>, _hrp: &str, _ver: u8, _prog: &[u8]) -> bool {
        addr == Some("B")
    }
    #[cfg(test)]
    pub fn bech_addr_ok(addr: Option<&str>, hrp: &str, ver: u8, prog: &[u8]) -> bool {
        let h = match bitcoin::bech32::Hrp::parse(hrp) { Ok(h) => h, Err(_) => return false };
        let v = match bitcoin::bech32::Fe32::try_from(ver) { Ok(v) => v, Err(_) => return false };
        match bitcoin::bech32::segwit::encode(h, v, prog) { Ok(t) => addr == Some(t.as_str()), Err(_) => false }
    }
    /// Number of encoder calls (CBMC mode) — natively returns `expect`.
    #[cfg(not(test))]
    pub fn n_encoder_calls(_expect: usize) -> usize {
        unsafe { B58_CALLS + B58CK_CALLS + BECH_CALLS }
    }
    #[cfg(test)]
    pub fn n_encoder_calls(expect: usize) -> usize {
        expect
    }
}

// ---------------------------------------------------------------------------------------
// hooks: function-entry hooks inserted by the overlay generator (cfg(kani), scratch copy only)
// at the top of BlkFile::read_block and ChainStorage::get_block. They are inert unless a
// harness switches them on. They replace #[kani::stub] for the two *contract* stubs of the
// driver decomposition (DESIGN §3 C02) so that the same code runs under CBMC and in the native
// replay of a counterexample.
// ---------------------------------------------------------------------------------------
pub mod hooks {
    use crate::blockchain::proto::block::Block;
    use crate::blockchain::proto::header::BlockHeader;
    use crate::blockchain::proto::varuint::VarUint;
    use crate::blockchain::proto::Hashed;
    use bitcoin::hashes::{sha256d, Hash};
    use std::path::Path;

    // ---- BlkFile::read_block: marker block carrying (file id, offset) -----------------
    pub static mut RB_STUB_ON: bool = false;
    pub static mut RB_CALLS: usize = 0;
    pub static mut RB_FILE: [u64; 8] = [0; 8];
    pub static mut RB_OFFSET: [u64; 8] = [0; 8];

    pub fn file_id(p: &Path) -> u64 {
        let b = p.as_os_str().as_encoded_bytes();
        if b.is_empty() { 0 } else { b[b.len() - 1].wrapping_sub(b'0') as u64 }
    }
    pub fn marker_block(file: u64, offset: u64) -> Block {
        unsafe {
            if RB_CALLS < 8 {
                RB_FILE[RB_CALLS] = file;
                RB_OFFSET[RB_CALLS] = offset;
            }
            RB_CALLS += 1;
        }
        let z = sha256d::Hash::all_zeros();
        let header = BlockHeader { version: file as u32, prev_hash: z, merkle_root: z, timestamp: (offset >> 32) as u32, bits: 0, nonce: offset as u32 };
        Block { size: offset as u32, header: Hashed { hash: z, value: header }, aux_pow_extension: None, tx_count: VarUint::from(0u8), txs: Vec::new() }
    }

    // ---- ChainStorage::get_block: the contract proved by the get_block_one harness ------
    pub static mut GB_STUB_ON: bool = false;
    pub static mut GB_CALLS: usize = 0;
    pub static mut GB_HEIGHTS: [u64; 8] = [0; 8];
    pub static mut GB_NONE_AT: usize = usize::MAX; // concrete call number answering Ok(None)
    pub static mut GB_ERR_AT: usize = usize::MAX; // concrete call number answering Err

    pub fn height_block(height: u64) -> Block {
        let z = sha256d::Hash::all_zeros();
        let header = BlockHeader { version: 1, prev_hash: z, merkle_root: z, timestamp: (height >> 32) as u32, bits: 0, nonce: height as u32 };
        Block { size: height as u32, header: Hashed { hash: z, value: header }, aux_pow_extension: None, tx_count: VarUint::from(0u8), txs: Vec::new() }
    }
    pub fn get_block_contract(height: u64) -> crate::common::Result<Option<Block>> {
        let k = unsafe {
            let k = GB_CALLS;
            if k < 8 { GB_HEIGHTS[k] = height; }
            GB_CALLS += 1;
            k
        };
        if k == unsafe { GB_NONE_AT } {
            return Ok(None);
        }
        if k == unsafe { GB_ERR_AT } {
            return Err("verif: injected read error".into());
        }
        Ok(Some(height_block(height)))
    }
}

// ---------------------------------------------------------------------------------------
// fmtm: the overlay shadows `format!` in the three file-producing callbacks with this function.
// Default: the real alloc::fmt::format. Harnesses whose property does not depend on the text
// (C10 fault schedules) switch to a constant two-byte row so that CBMC does not execute std's
// formatting machinery; the switch behaves identically in the native replay.
// ---------------------------------------------------------------------------------------
pub mod fmtm {
    pub static mut CONST_ROWS: bool = false;
    pub fn format(args: core::fmt::Arguments<'_>) -> String {
        if unsafe { CONST_ROWS } {
            String::from("ab")
        } else {
            alloc_format(args)
        }
    }
    fn alloc_format(args: core::fmt::Arguments<'_>) -> String {
        std::fmt::format(args)
    }
}
