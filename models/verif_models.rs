//! Library models linked into the verification overlay under cfg(kani) only.
//! (DESIGN.md §1.5.) They replace libraries CBMC cannot execute. Each model's contract is
//! stated next to it; every harness that uses one lists it in its evidence file.
//!
//! Rule: models are *source-level substitutions* (a rewritten `use` line in the scratch copy),
//! so the same model code runs under CBMC and in the native concrete playback of a
//! counterexample; all nondeterminism is drawn with kani::any() in the same order in both.
#![allow(dead_code, static_mut_refs, unused_imports, clippy::all)]

/// Every mutable static of the models and harnesses is wrapped in `Tg` with a unique tag.
/// [measured] Kani 0.68 lets a `static mut X: usize = 0` share storage with a promoted constant of the
/// same bytes (e.g. the `cap: 0` of `Vec::new()`): incrementing the counter then changed the
/// capacity of every empty Vec built afterwards (spurious "double free" in drop glue). A unique initial
/// content rules the sharing out.
pub struct Tg<T> {
    pub v: T,
    pub tag: u64,
}

// ---------------------------------------------------------------------------------------
// HashMap: fixed-capacity slot array. Contract: finite map; insert on an existing key
// replaces the value and returns the old one; iteration order unspecified (here: slot order).
// Exceeding CAP is a model panic ("verif model: HashMap capacity exceeded") which the driver
// reports as inconclusive, never as a verdict.
// ---------------------------------------------------------------------------------------
pub const CAP: usize = 6;

pub struct HashMap<K, V> {
    pub slots: [Option<(K, V)>; CAP],
}

macro_rules! each_slot {
    ($i:ident, $body:block) => {{
        { let $i: usize = 0; $body }
        { let $i: usize = 1; $body }
        { let $i: usize = 2; $body }
        { let $i: usize = 3; $body }
        { let $i: usize = 4; $body }
        { let $i: usize = 5; $body }
    }};
}

impl<K: PartialEq, V> HashMap<K, V> {
    pub fn new() -> Self {
        HashMap { slots: [None, None, None, None, None, None] }
    }
    pub fn with_capacity(_c: usize) -> Self {
        Self::new()
    }
    pub fn len(&self) -> usize {
        let mut n = 0;
        each_slot!(i, { if self.slots[i].is_some() { n += 1; } });
        n
    }
    pub fn is_empty(&self) -> bool {
        self.len() == 0
    }
    fn find(&self, k: &K) -> usize {
        let mut idx = CAP;
        each_slot!(i, {
            if idx == CAP {
                if let Some(kv) = self.slots[i].as_ref() { if kv.0 == *k { idx = i; } }
            }
        });
        idx
    }
    fn free(&self) -> usize {
        let mut idx = CAP;
        each_slot!(i, { if idx == CAP && self.slots[i].is_none() { idx = i; } });
        idx
    }
    pub fn insert(&mut self, k: K, v: V) -> Option<V> {
        let idx = self.find(&k);
        if idx < CAP {
            let kv = self.slots[idx].as_mut().unwrap();
            return Some(core::mem::replace(&mut kv.1, v));
        }
        let f = self.free();
        if f == CAP {
            panic!("verif model: HashMap capacity exceeded");
        }
        self.slots[f] = Some((k, v));
        None
    }
    pub fn get(&self, k: &K) -> Option<&V> {
        let idx = self.find(k);
        if idx == CAP { None } else { self.slots[idx].as_ref().map(|kv| &kv.1) }
    }
    pub fn get_mut(&mut self, k: &K) -> Option<&mut V> {
        let idx = self.find(k);
        if idx == CAP { None } else { self.slots[idx].as_mut().map(|kv| &mut kv.1) }
    }
    pub fn contains_key(&self, k: &K) -> bool {
        self.find(k) != CAP
    }
    pub fn remove(&mut self, k: &K) -> Option<V> {
        let idx = self.find(k);
        if idx == CAP { None } else { self.slots[idx].take().map(|kv| kv.1) }
    }
    pub fn retain<F: FnMut(&K, &mut V) -> bool>(&mut self, mut f: F) {
        each_slot!(i, {
            let keep = match self.slots[i].as_mut() { Some(kv) => f(&kv.0, &mut kv.1), None => true };
            if !keep { self.slots[i] = None; }
        });
    }
    pub fn keys(&self) -> impl Iterator<Item = &K> {
        self.slots.iter().filter_map(|s| s.as_ref().map(|kv| &kv.0))
    }
    pub fn values(&self) -> impl Iterator<Item = &V> {
        self.slots.iter().filter_map(|s| s.as_ref().map(|kv| &kv.1))
    }
    pub fn iter(&self) -> impl Iterator<Item = (&K, &V)> {
        self.slots.iter().filter_map(|s| s.as_ref().map(|kv| (&kv.0, &kv.1)))
    }
    pub fn entry(&mut self, k: K) -> Entry<'_, K, V> {
        Entry { map: self, key: k }
    }
}

pub struct Entry<'a, K, V> {
    map: &'a mut HashMap<K, V>,
    key: K,
}
impl<'a, K: PartialEq, V> Entry<'a, K, V> {
    pub fn or_insert(self, default: V) -> &'a mut V {
        let mut idx = self.map.find(&self.key);
        if idx == CAP {
            idx = self.map.free();
            if idx == CAP {
                panic!("verif model: HashMap capacity exceeded");
            }
            self.map.slots[idx] = Some((self.key, default));
        }
        self.map.slots[idx].as_mut().map(|kv| &mut kv.1).unwrap()
    }
}

impl<'a, K: PartialEq, V> IntoIterator for &'a HashMap<K, V> {
    type Item = (&'a K, &'a V);
    type IntoIter = core::iter::FilterMap<
        core::slice::Iter<'a, Option<(K, V)>>,
        fn(&'a Option<(K, V)>) -> Option<(&'a K, &'a V)>,
    >;
    fn into_iter(self) -> Self::IntoIter {
        fn pick<'b, K, V>(s: &'b Option<(K, V)>) -> Option<(&'b K, &'b V)> {
            s.as_ref().map(|kv| (&kv.0, &kv.1))
        }
        self.slots.iter().filter_map(pick::<K, V> as fn(&'a Option<(K, V)>) -> Option<(&'a K, &'a V)>)
    }
}

// ---------------------------------------------------------------------------------------
// LevelDB: DB::open returns a handle over a harness-provided sequence of (key, value) pairs.
// Contract assumed: LevelDB iterates in ascending bytewise key order with unique keys — the
// harness is responsible for laying records out in that order.
// ---------------------------------------------------------------------------------------
pub mod leveldb {
    use std::path::Path;
    pub const MAXREC: usize = 5;
    pub const KLEN: usize = 33;
    pub const VMAX: usize = 100;
    pub static mut N_REC: crate::verif_models::Tg<usize> = crate::verif_models::Tg { v: 0, tag: 0x5eedc0de00000001 };
    pub static mut KEYS: crate::verif_models::Tg<[[u8; KLEN]; MAXREC]> = crate::verif_models::Tg { v: [[0; KLEN]; MAXREC], tag: 0x5eedc0de00000002 };
    pub static mut KEYLEN: crate::verif_models::Tg<[usize; MAXREC]> = crate::verif_models::Tg { v: [KLEN; MAXREC], tag: 0x5eedc0de00000003 };
    pub static mut VALS: crate::verif_models::Tg<[[u8; VMAX]; MAXREC]> = crate::verif_models::Tg { v: [[0; VMAX]; MAXREC], tag: 0x5eedc0de00000004 };
    pub static mut VLEN: crate::verif_models::Tg<[usize; MAXREC]> = crate::verif_models::Tg { v: [0; MAXREC], tag: 0x5eedc0de00000005 };

    #[derive(Debug)]
    pub struct Status;
    impl std::fmt::Display for Status {
        fn fmt(&self, f: &mut std::fmt::Formatter) -> std::fmt::Result {
            f.write_str("status")
        }
    }
    impl std::error::Error for Status {}
    #[derive(Default)]
    pub struct Options;
    pub struct DB;
    pub struct DBIterator {
        pos: usize,
    }
    impl DB {
        pub fn open<P: AsRef<Path>>(_name: P, _opt: Options) -> Result<DB, Status> {
            Ok(DB)
        }
        pub fn new_iter(&mut self) -> Result<DBIterator, Status> {
            Ok(DBIterator { pos: 0 })
        }
    }
    pub trait LdbIterator {
        fn advance(&mut self) -> bool;
        fn current(&self, key: &mut Vec<u8>, val: &mut Vec<u8>) -> bool;
    }
    impl LdbIterator for DBIterator {
        fn advance(&mut self) -> bool {
            self.pos += 1;
            self.pos <= unsafe { N_REC.v }
        }
        fn current(&self, key: &mut Vec<u8>, val: &mut Vec<u8>) -> bool {
            let i = self.pos - 1;
            unsafe {
                key.clear();
                key.extend_from_slice(&KEYS.v[i][..KEYLEN.v[i]]);
                val.clear();
                val.extend_from_slice(&VALS.v[i][..VLEN.v[i]]);
            }
            true
        }
    }
}

// ---------------------------------------------------------------------------------------
// fs: in-memory ghost files. `File` is identified by a small integer fd derived from the
// LENGTH of the path (fs::path_for(fd)) or constructed directly with File::ghost(fd).
//  * write(): the k-th call fails iff FAULT_AT.v[k], is short (1 byte) iff SHORT_AT.v[k]; both
//    schedules are pre-drawn by the harness; accepted bytes are counted per fd and the first
//    LOGCAP bytes are kept.
//  * read()/seek(): over DATA.v[fd][..LEN.v[fd]] (harness-provided content), or, when FUNC_ON.v,
//    over an unbounded sparse file whose byte at position p is func_byte(fd, p) up to LEN64.v.
//  * rename(): records the call and snapshots the accepted-byte counters.
// Contract assumed: POSIX file semantics for sequential writes, positioned reads, and rename.
// ---------------------------------------------------------------------------------------
pub mod fs {
    use std::io::{self, Read, Seek, SeekFrom, Write};
    use std::path::{Path, PathBuf};

    pub const NFILES: usize = 8;
    pub const FSIZE: usize = 256;
    pub const LOGCAP: usize = 224;

    pub static mut DATA: crate::verif_models::Tg<[[u8; FSIZE]; NFILES]> = crate::verif_models::Tg { v: [[0; FSIZE]; NFILES], tag: 0x5eedc0de00000006 };
    pub static mut LEN: crate::verif_models::Tg<[usize; NFILES]> = crate::verif_models::Tg { v: [0; NFILES], tag: 0x5eedc0de00000007 };
    pub static mut EXISTS: crate::verif_models::Tg<[bool; NFILES]> = crate::verif_models::Tg { v: [true; NFILES], tag: 0x5eedc0de00000008 };
    pub static mut OPENS: crate::verif_models::Tg<[usize; NFILES]> = crate::verif_models::Tg { v: [0; NFILES], tag: 0x5eedc0de00000009 };
    pub static mut LIVE: crate::verif_models::Tg<[usize; NFILES]> = crate::verif_models::Tg { v: [0; NFILES], tag: 0x5eedc0de0000000a }; // open handles currently alive

    pub const NSCHED: usize = 12;
    pub static mut FAULT_AT: crate::verif_models::Tg<[bool; NSCHED]> = crate::verif_models::Tg { v: [false; NSCHED], tag: 0x5eedc0de0000000b };
    pub static mut SHORT_AT: crate::verif_models::Tg<[bool; NSCHED]> = crate::verif_models::Tg { v: [false; NSCHED], tag: 0x5eedc0de0000000c };
    pub static mut WRITE_FAILED: crate::verif_models::Tg<bool> = crate::verif_models::Tg { v: false, tag: 0x5eedc0de0000000d };
    pub static mut WRITE_CALLS: crate::verif_models::Tg<usize> = crate::verif_models::Tg { v: 0, tag: 0x5eedc0de0000000e };
    pub static mut ACCEPTED: crate::verif_models::Tg<[usize; NFILES]> = crate::verif_models::Tg { v: [0; NFILES], tag: 0x5eedc0de0000000f };
    pub static mut WLOG: crate::verif_models::Tg<[[u8; LOGCAP]; NFILES]> = crate::verif_models::Tg { v: [[0; LOGCAP]; NFILES], tag: 0x5eedc0de00000010 };
    pub static mut LOG_NAMES: crate::verif_models::Tg<bool> = crate::verif_models::Tg { v: false, tag: 0x5eedc0de0000f003 };
    pub static mut LOG_CONTENT: crate::verif_models::Tg<bool> = crate::verif_models::Tg { v: false, tag: 0x5eedc0de0000f001 };
    pub static mut FLUSHES: crate::verif_models::Tg<[usize; NFILES]> = crate::verif_models::Tg { v: [0; NFILES], tag: 0x5eedc0de00000011 };

    pub static mut RENAMES: crate::verif_models::Tg<usize> = crate::verif_models::Tg { v: 0, tag: 0x5eedc0de00000012 };
    pub static mut SNAP_AT_FIRST_RENAME: crate::verif_models::Tg<[usize; NFILES]> = crate::verif_models::Tg { v: [0; NFILES], tag: 0x5eedc0de00000013 };
    pub static mut RENAME_FAIL_AT: crate::verif_models::Tg<usize> = crate::verif_models::Tg { v: usize::MAX, tag: 0x5eedc0de00000014 };
    pub const NAMECAP: usize = 40;
    pub static mut RENAME_TO: crate::verif_models::Tg<[[u8; NAMECAP]; 4]> = crate::verif_models::Tg { v: [[0; NAMECAP]; 4], tag: 0x5eedc0de00000015 };
    pub static mut RENAME_TO_LEN: crate::verif_models::Tg<[usize; 4]> = crate::verif_models::Tg { v: [0; 4], tag: 0x5eedc0de00000016 };
    pub static mut RENAME_FROM: crate::verif_models::Tg<[[u8; NAMECAP]; 4]> = crate::verif_models::Tg { v: [[0; NAMECAP]; 4], tag: 0x5eedc0de00000017 };
    pub static mut RENAME_FROM_LEN: crate::verif_models::Tg<[usize; 4]> = crate::verif_models::Tg { v: [0; 4], tag: 0x5eedc0de00000018 };

    // sparse "function" files for far offsets
    pub static mut FUNC_ON: crate::verif_models::Tg<bool> = crate::verif_models::Tg { v: false, tag: 0x5eedc0de00000019 };
    pub static mut LEN64: crate::verif_models::Tg<[u64; NFILES]> = crate::verif_models::Tg { v: [0; NFILES], tag: 0x5eedc0de0000001a };
    pub static mut FUNC_SALT: crate::verif_models::Tg<[u8; NFILES]> = crate::verif_models::Tg { v: [0; NFILES], tag: 0x5eedc0de0000001b };
    pub fn func_byte(fd: usize, pos: u64) -> u8 {
        let s = unsafe { FUNC_SALT.v[fd] };
        (pos as u8) ^ ((pos >> 8) as u8).wrapping_mul(3) ^ ((pos >> 32) as u8).wrapping_mul(7) ^ s
    }

    pub struct File {
        pub fd: usize,
        pub pos: u64,
    }

    impl File {
        pub fn ghost(fd: usize) -> File {
            unsafe { LIVE.v[fd] += 1; }
            File { fd, pos: 0 }
        }
        /// The file id is the LENGTH of the path minus one ("x" = 0, "xx" = 1, ...): the length is a
        /// scalar CBMC keeps concrete, whereas a byte read back from the heap string made the id -
        /// and with it every later file operation - symbolic.
        fn fd_of<P: AsRef<Path>>(p: P) -> usize {
            let n = p.as_ref().as_os_str().len();
            if n == 0 { 0 } else { (n - 1) % NFILES }
        }
        pub fn open<P: AsRef<Path>>(p: P) -> io::Result<File> {
            let fd = Self::fd_of(p);
            unsafe {
                if !EXISTS.v[fd] {
                    return Err(io::Error::from(io::ErrorKind::NotFound));
                }
                OPENS.v[fd] += 1;
            }
            Ok(File::ghost(fd))
        }
        pub fn create<P: AsRef<Path>>(p: P) -> io::Result<File> {
            let fd = Self::fd_of(p);
            unsafe { ACCEPTED.v[fd] = 0; LEN.v[fd] = 0; EXISTS.v[fd] = true; }
            Ok(File::ghost(fd))
        }
    }
    /// stub for std::io::Error::is_interrupted (used by BufWriter::flush_buf and Write::write_all): the ghost
    /// file never reports EINTR. [measured] CBMC cannot fold io::Error's bit-packed pointer representation,
    /// so without this cut it explores the "interrupted: drop the error and retry" arm, whose drop glue
    /// (io::Error -> Custom -> Box<dyn Error> -> any Error impl, io::Error included) recurses through vtables
    /// to the unwind bound: >12 GiB for a single failing write.
    pub fn stub_not_interrupted(_e: &io::Error) -> bool {
        false
    }
    /// stubs for <io::Error as Error>::source / ::cause (never called by the code under test; CBMC reaches them
    /// only through its over-approximation of the vtable call in io::Error's drop glue, where they recurse)
    pub fn stub_no_source(_e: &io::Error) -> Option<&(dyn std::error::Error + 'static)> {
        None
    }
    pub fn stub_no_cause(_e: &io::Error) -> Option<&dyn std::error::Error> {
        None
    }
    /// Path whose ghost file id is `fd` (see fd_of).
    pub fn path_for(fd: usize) -> PathBuf {
        let mut s = String::new();
        let mut i = 0;
        while i <= fd { s.push('x'); i += 1; }
        PathBuf::from(s)
    }
    impl Drop for File {
        fn drop(&mut self) {
            unsafe { LIVE.v[self.fd] -= 1; }
        }
    }

    impl Write for File {
        fn write(&mut self, buf: &[u8]) -> io::Result<usize> {
            unsafe {
                let call = WRITE_CALLS.v;
                WRITE_CALLS.v += 1;
                // fault schedule pre-drawn by the harness (no kani::any() here: the native replay
                // must see the same schedule whatever the number of write calls)
                if call < NSCHED && FAULT_AT.v[call] {
                    WRITE_FAILED.v = true;
                    return Err(io::Error::from(io::ErrorKind::Other));
                }
                let mut n = buf.len();
                if call < NSCHED && SHORT_AT.v[call] && n > 1 {
                    n = 1;
                }
                let fd = self.fd;
                // content is only logged on request: with a symbolic fault schedule the write position
                // is symbolic and the log becomes a symbolically indexed array (out of memory)
                if LOG_CONTENT.v {
                    let mut i = 0;
                    while i < n {
                        let at = ACCEPTED.v[fd] + i;
                        if at < LOGCAP { WLOG.v[fd][at] = buf[i]; }
                        i += 1;
                    }
                }
                ACCEPTED.v[fd] += n;
                Ok(n)
            }
        }
        fn flush(&mut self) -> io::Result<()> {
            unsafe { FLUSHES.v[self.fd] += 1; }
            Ok(())
        }
    }

    impl Read for File {
        fn read(&mut self, buf: &mut [u8]) -> io::Result<usize> {
            unsafe {
                if FUNC_ON.v {
                    let len = LEN64.v[self.fd];
                    if self.pos >= len { return Ok(0); }
                    let avail = len - self.pos;
                    let n = if (buf.len() as u64) < avail { buf.len() } else { avail as usize };
                    let mut i = 0;
                    while i < n { buf[i] = func_byte(self.fd, self.pos + i as u64); i += 1; }
                    self.pos += n as u64;
                    return Ok(n);
                }
                let len = LEN.v[self.fd] as u64;
                if self.pos >= len { return Ok(0); }
                let avail = (len - self.pos) as usize;
                let n = if buf.len() < avail { buf.len() } else { avail };
                let p = self.pos as usize;
                let mut i = 0;
                while i < n { buf[i] = DATA.v[self.fd][p + i]; i += 1; }
                self.pos += n as u64;
                Ok(n)
            }
        }
    }
    impl Seek for File {
        fn seek(&mut self, pos: SeekFrom) -> io::Result<u64> {
            let len = unsafe { if FUNC_ON.v { LEN64.v[self.fd] } else { LEN.v[self.fd] as u64 } };
            let np: i128 = match pos {
                SeekFrom::Start(p) => p as i128,
                SeekFrom::Current(d) => self.pos as i128 + d as i128,
                SeekFrom::End(d) => len as i128 + d as i128,
            };
            if np < 0 || np > u64::MAX as i128 {
                return Err(io::Error::from(io::ErrorKind::InvalidInput));
            }
            self.pos = np as u64;
            Ok(self.pos)
        }
    }

    fn copy_name(p: &Path, dst: &mut [u8; NAMECAP]) -> usize {
        let b = p.as_os_str().as_encoded_bytes();
        let n = if b.len() < NAMECAP { b.len() } else { NAMECAP };
        let mut i = 0;
        while i < n { dst[i] = b[i]; i += 1; }
        n
    }

    pub fn rename<P: AsRef<Path>, Q: AsRef<Path>>(from: P, to: Q) -> io::Result<()> {
        unsafe {
            if RENAMES.v == RENAME_FAIL_AT.v {
                return Err(io::Error::from(io::ErrorKind::Other));
            }
            if RENAMES.v == 0 { SNAP_AT_FIRST_RENAME.v = ACCEPTED.v; }
            if LOG_NAMES.v && RENAMES.v < 4 {
                RENAME_TO_LEN.v[RENAMES.v] = copy_name(to.as_ref(), &mut RENAME_TO.v[RENAMES.v]);
                RENAME_FROM_LEN.v[RENAMES.v] = copy_name(from.as_ref(), &mut RENAME_FROM.v[RENAMES.v]);
            }
            RENAMES.v += 1;
        }
        Ok(())
    }

    // pass-throughs so that `fs::` paths used by code outside the verified functions still compile
    pub use std::fs::{metadata, read_dir, read_link, DirEntry};
    pub fn _unused(_p: PathBuf) {}
}

// ---------------------------------------------------------------------------------------
// process / time: exit records the code and ends the path; Instant::now is a constant.
// ---------------------------------------------------------------------------------------
pub mod process {
    pub static mut EXIT_CODE: crate::verif_models::Tg<i32> = crate::verif_models::Tg { v: -1, tag: 0x5eedc0de0000001c };
    pub static mut EXITED: crate::verif_models::Tg<bool> = crate::verif_models::Tg { v: false, tag: 0x5eedc0de0000001d };
    /// Hook evaluated at exit time (assertions about the state when the process would die).
    pub static mut AT_EXIT: crate::verif_models::Tg<Option<fn(i32)>> = crate::verif_models::Tg { v: None, tag: 0x5eedc0de0000001e };
    pub struct ExitMarker(pub i32);
    pub fn exit(code: i32) -> ! {
        unsafe {
            EXIT_CODE.v = code;
            EXITED.v = true;
            if let Some(f) = AT_EXIT.v { f(code); }
        }
        exit_end(code)
    }
    #[cfg(test)]
    fn exit_end(code: i32) -> ! {
        // native replay: the AT_EXIT.v assertions passed; end the test process cleanly
        println!("VERIF_EXIT_MODEL code={}", code);
        std::process::exit(0)
    }
    #[cfg(not(test))]
    fn exit_end(_code: i32) -> ! {
        kani::assume(false);
        loop {}
    }
}

pub mod time {
    pub use std::time::Duration;
    #[derive(Clone, Copy, PartialEq, Eq, PartialOrd, Ord, Debug)]
    pub struct Instant(pub u64);
    impl Instant {
        pub fn now() -> Instant {
            Instant(0)
        }
    }
    impl core::ops::Sub<Instant> for Instant {
        type Output = Duration;
        fn sub(self, o: Instant) -> Duration {
            Duration::from_secs(self.0.saturating_sub(o.0))
        }
    }
}

// ---------------------------------------------------------------------------------------
// ghost: uninterpreted hashes and recording encoders (used through #[kani::stub]).
// Rule: stubs never call kani::any(); symbolic digests are pre-drawn by the harness with
// ghost::init(kani::any()), so the native concrete playback draws exactly the same values.
// Dual-mode oracle helpers: under CBMC they check the ghost call log, in the native replay
// (cfg(test), stubs not applied) they compute the real function. The harness assertions are
// therefore the same source text in both modes.
// ---------------------------------------------------------------------------------------
pub mod ghost {
    use bitcoin::hashes::{hash160, sha256, sha256d, Hash};
    use std::fmt;

    pub const MAXCALLS: usize = 12;
    pub const PRE: usize = 272;
    pub static mut DIGESTS: crate::verif_models::Tg<[[u8; 32]; MAXCALLS]> = crate::verif_models::Tg { v: [[0; 32]; MAXCALLS], tag: 0x5eedc0de0000001f };
    pub static mut N_FIN: crate::verif_models::Tg<usize> = crate::verif_models::Tg { v: 0, tag: 0x5eedc0de00000020 };
    pub static mut CUR: crate::verif_models::Tg<[u8; PRE]> = crate::verif_models::Tg { v: [0; PRE], tag: 0x5eedc0de00000021 };
    pub static mut CUR_LEN: crate::verif_models::Tg<usize> = crate::verif_models::Tg { v: 0, tag: 0x5eedc0de00000022 };
    pub static mut LOG: crate::verif_models::Tg<[[u8; PRE]; MAXCALLS]> = crate::verif_models::Tg { v: [[0; PRE]; MAXCALLS], tag: 0x5eedc0de00000023 };
    pub static mut LOG_LEN: crate::verif_models::Tg<[usize; MAXCALLS]> = crate::verif_models::Tg { v: [0; MAXCALLS], tag: 0x5eedc0de00000024 };
    pub static mut LOG_KIND: crate::verif_models::Tg<[u8; MAXCALLS]> = crate::verif_models::Tg { v: [0; MAXCALLS], tag: 0x5eedc0de00000025 }; // 1 = sha256d, 2 = hash160

    pub fn init(d: [[u8; 32]; MAXCALLS]) {
        unsafe { DIGESTS.v = d; }
    }

    pub fn stub_engine_input(_e: &mut sha256::HashEngine, data: &[u8]) {
        unsafe {
            let l = CUR_LEN.v;
            let n = data.len();
            // element loops, not copy_from_slice: CBMC's memcpy model on these arrays is far slower [measured]
            if l + n <= PRE {
                let mut i = 0;
                while i < n { CUR.v[l + i] = data[i]; i += 1; }
            }
            CUR_LEN.v = l + n;
        }
    }
    fn fin(kind: u8) -> [u8; 32] {
        unsafe {
            let k = N_FIN.v;
            if k >= MAXCALLS {
                panic!("verif model: hash call log capacity exceeded");
            }
            let mut i = 0;
            while i < CUR_LEN.v && i < PRE { LOG.v[k][i] = CUR.v[i]; i += 1; }
            LOG_LEN.v[k] = CUR_LEN.v;
            LOG_KIND.v[k] = kind;
            CUR_LEN.v = 0;
            N_FIN.v = k + 1;
            DIGESTS.v[k]
        }
    }
    pub fn stub_sha256d_fin(_e: sha256::HashEngine) -> sha256d::Hash {
        sha256d::Hash::from_byte_array(fin(1))
    }
    pub fn stub_hash160_fin(_e: sha256::HashEngine) -> hash160::Hash {
        let d = fin(2);
        let mut o = [0u8; 20];
        let mut i = 0;
        while i < 20 { o[i] = d[i]; i += 1; }
        hash160::Hash::from_byte_array(o)
    }

    fn same(a: &[u8], b: &[u8]) -> bool {
        if a.len() != b.len() {
            return false;
        }
        let mut i = 0;
        while i < a.len() {
            if a[i] != b[i] {
                return false;
            }
            i += 1;
        }
        true
    }

    /// Digest of the k-th hash call, provided its pre-image and kind are as expected.
    /// CBMC mode: looks at the call log. Native replay: computes the real hash.
    #[cfg(not(test))]
    pub fn sha256d_call(k: usize, pre: &[u8]) -> Option<[u8; 32]> {
        unsafe {
            if k < N_FIN.v && LOG_KIND.v[k] == 1 && LOG_LEN.v[k] == pre.len() && pre.len() <= PRE && same(&LOG.v[k][..pre.len()], pre) {
                Some(DIGESTS.v[k])
            } else {
                None
            }
        }
    }
    #[cfg(test)]
    pub fn sha256d_call(_k: usize, pre: &[u8]) -> Option<[u8; 32]> {
        Some(sha256d::Hash::hash(pre).to_byte_array())
    }
    #[cfg(not(test))]
    pub fn hash160_call(k: usize, pre: &[u8]) -> Option<[u8; 20]> {
        unsafe {
            if k < N_FIN.v && LOG_KIND.v[k] == 2 && LOG_LEN.v[k] == pre.len() && pre.len() <= PRE && same(&LOG.v[k][..pre.len()], pre) {
                let mut o = [0u8; 20];
                let mut i = 0;
                while i < 20 { o[i] = DIGESTS.v[k][i]; i += 1; }
                Some(o)
            } else {
                None
            }
        }
    }
    #[cfg(test)]
    pub fn hash160_call(_k: usize, pre: &[u8]) -> Option<[u8; 20]> {
        Some(hash160::Hash::hash(pre).to_byte_array())
    }
    /// Number of hash computations performed (CBMC mode); natively unknown -> returns `expect`.
    #[cfg(not(test))]
    pub fn n_hash_calls(_expect: usize) -> usize {
        unsafe { N_FIN.v }
    }
    #[cfg(test)]
    pub fn n_hash_calls(expect: usize) -> usize {
        expect
    }

    // ---- encoders --------------------------------------------------------------------
    pub const ENC: usize = 272;
    pub static mut B58_CALLS: crate::verif_models::Tg<usize> = crate::verif_models::Tg { v: 0, tag: 0x5eedc0de00000026 };
    pub static mut B58_LEN: crate::verif_models::Tg<usize> = crate::verif_models::Tg { v: 0, tag: 0x5eedc0de00000027 };
    pub static mut B58: crate::verif_models::Tg<[u8; ENC]> = crate::verif_models::Tg { v: [0; ENC], tag: 0x5eedc0de00000028 };
    pub static mut B58CK_CALLS: crate::verif_models::Tg<usize> = crate::verif_models::Tg { v: 0, tag: 0x5eedc0de00000029 };
    pub static mut B58CK_LEN: crate::verif_models::Tg<usize> = crate::verif_models::Tg { v: 0, tag: 0x5eedc0de0000002a };
    pub static mut B58CK: crate::verif_models::Tg<[u8; ENC]> = crate::verif_models::Tg { v: [0; ENC], tag: 0x5eedc0de0000002b };
    pub static mut BECH_CALLS: crate::verif_models::Tg<usize> = crate::verif_models::Tg { v: 0, tag: 0x5eedc0de0000002c };
    pub static mut BECH_LEN: crate::verif_models::Tg<usize> = crate::verif_models::Tg { v: 0, tag: 0x5eedc0de0000002d };
    pub static mut BECH: crate::verif_models::Tg<[u8; ENC]> = crate::verif_models::Tg { v: [0; ENC], tag: 0x5eedc0de0000002e };
    pub static mut BECH_VER: crate::verif_models::Tg<u8> = crate::verif_models::Tg { v: 0xff, tag: 0x5eedc0de0000002f };
    pub static mut BECH_HRP: crate::verif_models::Tg<[u8; 4]> = crate::verif_models::Tg { v: [0; 4], tag: 0x5eedc0de00000030 };
    pub static mut BECH_HRP_LEN: crate::verif_models::Tg<usize> = crate::verif_models::Tg { v: 0, tag: 0x5eedc0de00000031 };

    fn rec(dst: &mut [u8; ENC], data: &[u8]) -> usize {
        let n = data.len();
        if n <= ENC {
            let mut i = 0;
            while i < n { dst[i] = data[i]; i += 1; }
        }
        n
    }
    /// stub for bitcoin::base58::encode (fork-coin path): records payload, returns "A"
    pub fn stub_b58(data: &[u8]) -> String {
        unsafe {
            B58_CALLS.v += 1;
            B58_LEN.v = rec(&mut B58.v, data);
        }
        String::from("A")
    }
    /// stub for bitcoin::base58::encode_check_to_fmt (rust-bitcoin Address Display)
    pub fn stub_b58ck_fmt(f: &mut fmt::Formatter, data: &[u8]) -> fmt::Result {
        unsafe {
            B58CK_CALLS.v += 1;
            B58CK_LEN.v = rec(&mut B58CK.v, data);
        }
        f.write_str("A")
    }
    /// stub for bech32::segwit::encode_lower_to_fmt_unchecked
    pub fn stub_bech<W: fmt::Write>(f: &mut W, hrp: bitcoin::bech32::Hrp, v: bitcoin::bech32::Fe32, p: &[u8]) -> fmt::Result {
        unsafe {
            BECH_CALLS.v += 1;
            BECH_LEN.v = rec(&mut BECH.v, p);
            BECH_VER.v = v.to_u8();
            let h = hrp.as_bytes();
            BECH_HRP_LEN.v = h.len();
            let mut i = 0;
            while i < 4 && i < h.len() {
                BECH_HRP.v[i] = h[i];
                i += 1;
            }
        }
        f.write_str("B")
    }

    // Dual-mode address oracles. They never allocate under a symbolic condition (a merged
    // Some(String)/None makes CBMC's drop glue explode): `*_payload_is` says whether the encoder
    // was called exactly once with this payload (CBMC: ghost log; native: trivially true), and
    // `*_addr_ok` compares the produced text (CBMC: the stub's sentinel; native: the real encoding).
    #[cfg(not(test))]
    pub fn b58_payload_is(payload: &[u8]) -> bool {
        unsafe { B58_CALLS.v == 1 && B58_LEN.v == payload.len() && same(&B58.v[..payload.len()], payload) }
    }
    #[cfg(test)]
    pub fn b58_payload_is(_payload: &[u8]) -> bool {
        true
    }
    #[cfg(not(test))]
    pub fn b58_addr_ok(addr: Option<&str>, _payload: &[u8]) -> bool {
        addr == Some("A")
    }
    #[cfg(test)]
    pub fn b58_addr_ok(addr: Option<&str>, payload: &[u8]) -> bool {
        addr == Some(bitcoin::base58::encode(payload).as_str())
    }
    #[cfg(not(test))]
    pub fn b58ck_payload_is(payload: &[u8]) -> bool {
        unsafe { B58CK_CALLS.v == 1 && B58CK_LEN.v == payload.len() && same(&B58CK.v[..payload.len()], payload) }
    }
    #[cfg(test)]
    pub fn b58ck_payload_is(_payload: &[u8]) -> bool {
        true
    }
    #[cfg(not(test))]
    pub fn b58ck_addr_ok(addr: Option<&str>, _payload: &[u8]) -> bool {
        addr == Some("A")
    }
    #[cfg(test)]
    pub fn b58ck_addr_ok(addr: Option<&str>, payload: &[u8]) -> bool {
        addr == Some(bitcoin::base58::encode_check(payload).as_str())
    }
    #[cfg(not(test))]
    pub fn bech_payload_is(hrp: &str, ver: u8, prog: &[u8]) -> bool {
        unsafe {
            let h = hrp.as_bytes();
            BECH_CALLS.v == 1 && BECH_VER.v == ver && BECH_LEN.v == prog.len() && same(&BECH.v[..prog.len()], prog)
                && BECH_HRP_LEN.v == h.len() && same(&BECH_HRP.v[..h.len()], h)
        }
    }
    #[cfg(test)]
    pub fn bech_payload_is(_hrp: &str, _ver: u8, _prog: &[u8]) -> bool {
        true
    }
    #[cfg(not(test))]
    pub fn bech_addr_ok(addr: Option<&str>, _hrp: &str, _ver: u8, _prog: &[u8]) -> bool {
        addr == Some("B")
    }
    #[cfg(test)]
    pub fn bech_addr_ok(addr: Option<&str>, hrp: &str, ver: u8, prog: &[u8]) -> bool {
        let h = match bitcoin::bech32::Hrp::parse(hrp) { Ok(h) => h, Err(_) => return false };
        let v = match bitcoin::bech32::Fe32::try_from(ver) { Ok(v) => v, Err(_) => return false };
        match bitcoin::bech32::segwit::encode(h, v, prog) { Ok(t) => addr == Some(t.as_str()), Err(_) => false }
    }
    /// Number of encoder calls (CBMC mode) — natively returns `expect`.
    #[cfg(not(test))]
    pub fn n_encoder_calls(_expect: usize) -> usize {
        unsafe { B58_CALLS.v + B58CK_CALLS.v + BECH_CALLS.v }
    }
    #[cfg(test)]
    pub fn n_encoder_calls(expect: usize) -> usize {
        expect
    }
}

// ---------------------------------------------------------------------------------------
// hooks: function-entry hooks inserted by the overlay generator (cfg(kani), scratch copy only)
// at the top of BlkFile::read_block and ChainStorage::get_block. They are inert unless a
// harness switches them on. They replace #[kani::stub] for the two *contract* stubs of the
// driver decomposition (DESIGN §3 C02) so that the same code runs under CBMC and in the native
// replay of a counterexample.
// ---------------------------------------------------------------------------------------
pub mod hooks {
    use crate::blockchain::proto::block::Block;
    use crate::blockchain::proto::header::BlockHeader;
    use crate::blockchain::proto::varuint::VarUint;
    use crate::blockchain::proto::Hashed;
    use bitcoin::hashes::{sha256d, Hash};
    use std::path::Path;

    // ---- BlkFile::read_block: marker block carrying (file id, offset) -----------------
    pub static mut RB_STUB_ON: crate::verif_models::Tg<bool> = crate::verif_models::Tg { v: false, tag: 0x5eedc0de00000032 };
    pub static mut RB_CALLS: crate::verif_models::Tg<usize> = crate::verif_models::Tg { v: 0, tag: 0x5eedc0de00000033 };
    pub static mut RB_FILE: crate::verif_models::Tg<[u64; 8]> = crate::verif_models::Tg { v: [0; 8], tag: 0x5eedc0de00000034 };
    pub static mut RB_OFFSET: crate::verif_models::Tg<[u64; 8]> = crate::verif_models::Tg { v: [0; 8], tag: 0x5eedc0de00000035 };

    pub fn file_id(p: &Path) -> u64 {
        let n = p.as_os_str().len();
        if n == 0 { 0 } else { (n - 1) as u64 }
    }
    pub fn marker_block(file: u64, offset: u64) -> Block {
        unsafe {
            if RB_CALLS.v < 8 {
                RB_FILE.v[RB_CALLS.v] = file;
                RB_OFFSET.v[RB_CALLS.v] = offset;
            }
            RB_CALLS.v += 1;
        }
        let z = sha256d::Hash::all_zeros();
        let header = BlockHeader { version: file as u32, prev_hash: z, merkle_root: z, timestamp: (offset >> 32) as u32, bits: 0, nonce: offset as u32 };
        Block { size: offset as u32, header: Hashed { hash: z, value: header }, aux_pow_extension: None, tx_count: VarUint::from(0u8), txs: Vec::new() }
    }

    // ---- ChainStorage::get_block: the contract proved by the get_block_one harness ------
    pub static mut GB_STUB_ON: crate::verif_models::Tg<bool> = crate::verif_models::Tg { v: false, tag: 0x5eedc0de00000036 };
    pub static mut GB_CALLS: crate::verif_models::Tg<usize> = crate::verif_models::Tg { v: 0, tag: 0x5eedc0de00000037 };
    pub static mut GB_HEIGHTS: crate::verif_models::Tg<[u64; 8]> = crate::verif_models::Tg { v: [0; 8], tag: 0x5eedc0de00000038 };
    pub static mut GB_NONE_AT: crate::verif_models::Tg<usize> = crate::verif_models::Tg { v: usize::MAX, tag: 0x5eedc0de00000039 }; // concrete call number answering Ok(None)
    pub static mut GB_ERR_AT: crate::verif_models::Tg<usize> = crate::verif_models::Tg { v: usize::MAX, tag: 0x5eedc0de0000003a }; // concrete call number answering Err

    pub fn height_block(height: u64) -> Block {
        let z = sha256d::Hash::all_zeros();
        let header = BlockHeader { version: 1, prev_hash: z, merkle_root: z, timestamp: (height >> 32) as u32, bits: 0, nonce: height as u32 };
        Block { size: height as u32, header: Hashed { hash: z, value: header }, aux_pow_extension: None, tx_count: VarUint::from(0u8), txs: Vec::new() }
    }
    pub fn get_block_contract(height: u64) -> crate::common::Result<Option<Block>> {
        let k = unsafe {
            let k = GB_CALLS.v;
            if k < 8 { GB_HEIGHTS.v[k] = height; }
            GB_CALLS.v += 1;
            k
        };
        if k == unsafe { GB_NONE_AT.v } {
            return Ok(None);
        }
        if k == unsafe { GB_ERR_AT.v } {
            return Err("verif: injected read error".into());
        }
        Ok(Some(height_block(height)))
    }
}

// ---------------------------------------------------------------------------------------
// fmtm: the overlay shadows `format!` in the three file-producing callbacks with this function.
// Default: the real alloc::fmt::format. Harnesses whose property does not depend on the text
// (C10 fault schedules) switch to a constant two-byte row so that CBMC does not execute std's
// formatting machinery; the switch behaves identically in the native replay.
// ---------------------------------------------------------------------------------------
pub mod fmtm {
    pub static mut CONST_ROWS: crate::verif_models::Tg<bool> = crate::verif_models::Tg { v: false, tag: 0x5eedc0de0000003b };
    pub fn format(args: core::fmt::Arguments<'_>) -> String {
        if unsafe { CONST_ROWS.v } {
            String::from("ab")
        } else {
            alloc_format(args)
        }
    }
    fn alloc_format(args: core::fmt::Arguments<'_>) -> String {
        std::fmt::format(args)
    }

    // ---- structured model of `format!` / `println!` (selected per harness with STRUCTURED) ----
    // [measured] real core::fmt (Arguments, dyn Display vtables, Formatter::pad_integral) does not finish under CBMC
    // even for concrete values (40 min). The structured model renders `"lit{}lit{: <9}..."` as the concatenation of
    // the literal pieces and the Display text of each argument, where the Display text of the types the callbacks
    // print is written out here: unsigned/signed integers = decimal, str/String = the text, sha256d::Hash = hex of
    // the bytes in reverse order; anything else falls back to the real Display. Trusted: that this is what
    // core::fmt does for `{}` and `{: <N}`; cross-checked natively against the real `format!` by bin/modeltest
    // and on every native replay (the cfg(test) path compares both and panics with VERIF_MODEL_MISMATCH).
    pub static mut STRUCTURED: crate::verif_models::Tg<bool> = crate::verif_models::Tg { v: false, tag: 0x5eedc0de0000f0f1 };
    pub static mut MAX_DIGITS: crate::verif_models::Tg<usize> = crate::verif_models::Tg { v: 20, tag: 0x5eedc0de0000f0f2 };
    pub struct W<'a, T: ?Sized>(pub &'a T);
    pub trait Spec { fn spec(&self, o: &mut Out); }
    fn dec(mut v: u64, neg: bool, o: &mut Out) {
        let mut d = [0u8; 20];
        let mut n = 0;
        // at most 20 digits: the counter is concrete, so symbolic execution stops unrolling there whatever the unwind bound.
        // A harness that bounds its numbers may lower the limit (MAX_DIGITS): the text length then has few cases
        // ([measured] 20 potential lengths per number made a one-row file cost 380 s / 8 GiB). The hint is checked,
        // not assumed: a number that needs more digits fails VERIF_MODEL:digit_hint_too_small (never a property label;
        // natively the limit is always 20, so such a counterexample does not reproduce and the check ends inconclusive).
        let lim = if cfg!(test) { 20 } else { unsafe { MAX_DIGITS.v } };
        while n < lim {
            d[n] = b'0' + (v % 10) as u8;
            v /= 10;
            n += 1;
            if v == 0 { break; }
        }
        assert!(v == 0, "VERIF_MODEL:digit_hint_too_small");
        if neg { o.put(b'-'); }
        while n > 0 { n -= 1; o.put(d[n]); }
    }
    impl Spec for u8 { fn spec(&self, o: &mut Out) { dec(*self as u64, false, o) } }
    impl Spec for u16 { fn spec(&self, o: &mut Out) { dec(*self as u64, false, o) } }
    impl Spec for u32 { fn spec(&self, o: &mut Out) { dec(*self as u64, false, o) } }
    impl Spec for u64 { fn spec(&self, o: &mut Out) { dec(*self, false, o) } }
    impl Spec for usize { fn spec(&self, o: &mut Out) { dec(*self as u64, false, o) } }
    impl Spec for i32 { fn spec(&self, o: &mut Out) { dec(self.unsigned_abs() as u64, *self < 0, o) } }
    impl Spec for i64 { fn spec(&self, o: &mut Out) { dec(self.unsigned_abs(), *self < 0, o) } }
    impl Spec for str { fn spec(&self, o: &mut Out) { let b = self.as_bytes(); let mut i = 0; while i < b.len() { o.put(b[i]); i += 1; } } }
    impl Spec for String { fn spec(&self, o: &mut Out) { self.as_str().spec(o) } }
    impl Spec for bitcoin::hashes::sha256d::Hash {
        fn spec(&self, o: &mut Out) {
            let b: &[u8; 32] = bitcoin::hashes::Hash::as_byte_array(self);
            let hex = b"0123456789abcdef";
            let mut i = 32;
            while i > 0 { i -= 1; o.put(hex[(b[i] >> 4) as usize]); o.put(hex[(b[i] & 15) as usize]); }
        }
    }
    impl<T: Spec + ?Sized> Spec for &T { fn spec(&self, o: &mut Out) { (**self).spec(o) } }
    // autoref-ordered dispatch: S1 (modelled types) before S2 (any Display: real formatting) before S3 (anything: nothing)
    pub trait S1 { fn vshow(&self, o: &mut Out); }
    pub trait S2 { fn vshow(&self, o: &mut Out); }
    pub trait S3 { fn vshow(&self, o: &mut Out); }
    impl<'a, T: Spec + ?Sized> S1 for &W<'a, T> { fn vshow(&self, o: &mut Out) { self.0.spec(o) } }
    impl<'a, T: core::fmt::Display + ?Sized> S2 for &&W<'a, T> {
        fn vshow(&self, o: &mut Out) { let s = std::fmt::format(format_args!("{}", self.0)); s.as_str().spec(o); }
    }
    impl<'a, T: ?Sized> S3 for W<'a, T> { fn vshow(&self, _o: &mut Out) {} }
    pub const SCAP: usize = 240;
    pub struct Out { fmt: &'static [u8], at: usize, buf: [u8; SCAP], n: usize, width: usize, start: usize }
    impl Out {
        pub fn new(fmt: &'static str) -> Out { Out { fmt: fmt.as_bytes(), at: 0, buf: [0; SCAP], n: 0, width: 0, start: 0 } }
        pub fn put(&mut self, b: u8) { if self.n < SCAP { self.buf[self.n] = b; } self.n += 1; }
        /// copies literal text up to the next placeholder and consumes the placeholder (`{}` or `{: <N}`)
        pub fn lit(&mut self) {
            while self.at < self.fmt.len() && self.fmt[self.at] != b'{' { let b = self.fmt[self.at]; self.put(b); self.at += 1; }
            self.width = 0;
            if self.at < self.fmt.len() {
                self.at += 1; // '{'
                if self.fmt[self.at] == b':' {
                    self.at += 3; // ": <"
                    while self.fmt[self.at] != b'}' { self.width = self.width * 10 + (self.fmt[self.at] - b'0') as usize; self.at += 1; }
                }
                self.at += 1; // '}'
            }
            self.start = self.n;
        }
        pub fn pad(&mut self) { while self.n - self.start < self.width { self.put(b' '); } }
        pub fn finish(mut self) -> String {
            while self.at < self.fmt.len() { let b = self.fmt[self.at]; self.put(b); self.at += 1; }
            let n = if self.n < SCAP { self.n } else { SCAP };
            let mut v: Vec<u8> = Vec::with_capacity(SCAP);
            let mut i = 0;
            while i < n { v.push(self.buf[i]); i += 1; }
            // all pieces are ASCII or come from str values
            unsafe { String::from_utf8_unchecked(v) }
        }
    }
    /// placeholders the structured model understands: `{}` and `{: <N}`; no escapes
    pub fn simple(fmt: &str) -> bool {
        let b = fmt.as_bytes();
        let mut i = 0;
        while i < b.len() {
            if b[i] == b'}' { return false; }
            if b[i] == b'{' {
                i += 1;
                if i >= b.len() { return false; }
                if b[i] == b':' {
                    if i + 3 >= b.len() || b[i + 1] != b' ' || b[i + 2] != b'<' || !(b[i + 3] >= b'0' && b[i + 3] <= b'9') { return false; }
                    i += 3;
                    while i < b.len() && b[i] >= b'0' && b[i] <= b'9' { i += 1; }
                }
                if i >= b.len() || b[i] != b'}' { return false; }
            }
            i += 1;
        }
        true
    }
    pub fn use_structured(fmt: &str) -> bool { let on = unsafe { STRUCTURED.v }; on && simple(fmt) }
    /// native replay: the model must agree with the real formatting machinery
    pub fn cross_check(model: String, _real: core::fmt::Arguments<'_>) -> String {
        #[cfg(test)]
        {
            let r = std::fmt::format(_real);
            if r != model { panic!("VERIF_MODEL_MISMATCH format model {:?} vs core::fmt {:?}", model, r); }
        }
        model
    }
    pub fn println_structured(s: String) {
        let mut w = Sink;
        let _ = core::fmt::Write::write_str(&mut w, s.as_str());
        let _ = core::fmt::Write::write_str(&mut w, "\n");
        unsafe { LINES.v += 1; }
        core::mem::forget(s);
    }

    // println! shadow (opreturn.rs): formats with the real core::fmt into a ghost buffer
    pub const OUTCAP: usize = 512;
    pub static mut OUT: crate::verif_models::Tg<[u8; OUTCAP]> = crate::verif_models::Tg { v: [0; OUTCAP], tag: 0x5eedc0de0000003c };
    pub static mut OUT_LEN: crate::verif_models::Tg<usize> = crate::verif_models::Tg { v: 0, tag: 0x5eedc0de0000003d };
    pub static mut LINES: crate::verif_models::Tg<usize> = crate::verif_models::Tg { v: 0, tag: 0x5eedc0de0000003e };
    struct Sink;
    impl core::fmt::Write for Sink {
        fn write_str(&mut self, s: &str) -> core::fmt::Result {
            let b = s.as_bytes();
            unsafe {
                let mut i = 0;
                while i < b.len() {
                    if OUT_LEN.v < OUTCAP { OUT.v[OUT_LEN.v] = b[i]; }
                    OUT_LEN.v += 1;
                    i += 1;
                }
            }
            Ok(())
        }
    }
    pub fn println(args: core::fmt::Arguments<'_>) {
        let mut w = Sink;
        let _ = core::fmt::write(&mut w, args);
        let _ = core::fmt::Write::write_str(&mut w, "\n");
        unsafe { LINES.v += 1; }
    }
}

// Native cross-check of the structured format model against the real core::fmt (run by bin/modeltest through
// `cargo kani playback`, i.e. compiled natively with cfg(kani) and cfg(test)).
#[cfg(test)]
mod model_tests {
    use super::fmtm::*;
    fn one<A: core::fmt::Display, B: core::fmt::Display>(a: &A, b: &B, ma: impl Fn(&mut Out), mb: impl Fn(&mut Out)) {
        let mut o = Out::new("x-{}-{: <9}|{}.csv\n");
        o.lit(); ma(&mut o); o.pad();
        o.lit(); mb(&mut o); o.pad();
        o.lit(); ma(&mut o); o.pad();
        let got = o.finish();
        let want = std::format!("x-{}-{: <9}|{}.csv\n", a, b, a);
        assert_eq!(got, want);
    }
    #[test]
    fn fmt_model_matches_core_fmt() {
        unsafe { STRUCTURED.v = true; }
        assert!(use_structured("{};{}\n") && use_structured("height: {: <9} txid: {}    data: {}") && use_structured("abc"));
        assert!(!use_structured("{:?}") && !use_structured("{{}}") && !use_structured("{x}") && !use_structured("{:>4}") && !use_structured("{0}") && !use_structured("{:.2}"));
        let vals: [u64; 14] = [0, 1, 9, 10, 11, 99, 100, 999, 1000, 65535, 4294967295, 4294967296, 9999999999999999999, u64::MAX];
        for v in vals {
            let w = v.wrapping_mul(0x9e3779b97f4a7c15);
            one(&v, &w, |o| (&&W(&v)).vshow(o), |o| (&&W(&w)).vshow(o));
            let (a, b) = (v as u32, w as u8);
            one(&a, &b, |o| (&&W(&a)).vshow(o), |o| (&&W(&b)).vshow(o));
            let (a, b) = (v as i32, w as i64);
            one(&a, &b, |o| (&&W(&a)).vshow(o), |o| (&&W(&b)).vshow(o));
            let (a, b) = (v as usize, w as u16);
            one(&a, &b, |o| (&&W(&a)).vshow(o), |o| (&&W(&b)).vshow(o));
            let mut hb = [0u8; 32];
            for (i, x) in hb.iter_mut().enumerate() { *x = (w >> (i % 8)) as u8 ^ (i as u8).wrapping_mul(37); }
            let h: bitcoin::hashes::sha256d::Hash = bitcoin::hashes::Hash::from_byte_array(hb);
            let s = std::format!("addr{}", v);
            one(&h, &s, |o| (&&W(&h)).vshow(o), |o| (&&W(&s)).vshow(o));
            let (r, rr): (&str, &&str) = (s.as_str(), &s.as_str());
            one(&r, rr, |o| (&&W(&r)).vshow(o), |o| (&&W(rr)).vshow(o));
            let rh = &h;
            one(&rh, &"", |o| (&&W(&rh)).vshow(o), |o| (&&W(&"")).vshow(o));
            // a type the model does not know: falls back to the real Display
            let f = v as f64 / 8.0;
            let c = 'c';
            one(&f, &c, |o| (&&W(&f)).vshow(o), |o| (&&W(&c)).vshow(o));
        }
        // a type without Display renders nothing (only reachable when the format string is not `simple`)
        struct NoDisplay;
        let mut o = Out::new("a{}b");
        o.lit(); (&&W(&NoDisplay)).vshow(&mut o); o.pad();
        assert_eq!(o.finish(), "ab");
    }
}
