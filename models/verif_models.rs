//! Library models linked into the verification overlay under cfg(kani) only.
//! (DESIGN.md §1.5.) They replace libraries CBMC cannot execute. Each model's contract is
//! stated next to it; every harness that uses one lists it in its evidence file.
//!
//! Rule: models are *source-level substitutions* (a rewritten `use` line in the scratch copy),
//! so the same model code runs under CBMC and in the native concrete playback of a
//! counterexample; all nondeterminism is drawn with kani::any() in the same order in both.
#![allow(dead_code, static_mut_refs, unused_imports, clippy::all)]

// ---------------------------------------------------------------------------------------
// HashMap: fixed-capacity slot array. Contract: finite map; insert on an existing key
// replaces the value and returns the old one; iteration order unspecified (here: slot order).
// Exceeding CAP is a model panic ("verif model: HashMap capacity exceeded") which the driver
// reports as inconclusive, never as a verdict.
// ---------------------------------------------------------------------------------------
pub const CAP: usize = 6;

pub struct HashMap<K, V> {
    pub slots: [Option<(K, V)>; CAP],
}

macro_rules! each_slot {
    ($i:ident, $body:block) => {{
        { let $i: usize = 0; $body }
        { let $i: usize = 1; $body }
        { let $i: usize = 2; $body }
        { let $i: usize = 3; $body }
        { let $i: usize = 4; $body }
        { let $i: usize = 5; $body }
    }};
}

impl<K: PartialEq, V> HashMap<K, V> {
    pub fn new() -> Self {
        HashMap { slots: [None, None, None, None, None, None] }
    }
    pub fn with_capacity(_c: usize) -> Self {
        Self::new()
    }
    pub fn len(&self) -> usize {
        let mut n = 0;
        each_slot!(i, { if self.slots[i].is_some() { n += 1; } });
        n
    }
    pub fn is_empty(&self) -> bool {
        self.len() == 0
    }
    fn find(&self, k: &K) -> usize {
        let mut idx = CAP;
        each_slot!(i, {
            if idx == CAP {
                if let Some(kv) = self.slots[i].as_ref() { if kv.0 == *k { idx = i; } }
            }
        });
        idx
    }
    fn free(&self) -> usize {
        let mut idx = CAP;
        each_slot!(i, { if idx == CAP && self.slots[i].is_none() { idx = i; } });
        idx
    }
    pub fn insert(&mut self, k: K, v: V) -> Option<V> {
        let idx = self.find(&k);
        if idx < CAP {
            let kv = self.slots[idx].as_mut().unwrap();
            return Some(core::mem::replace(&mut kv.1, v));
        }
        let f = self.free();
        if f == CAP {
            panic!("verif model: HashMap capacity exceeded");
        }
        self.slots[f] = Some((k, v));
        None
    }
    pub fn get(&self, k: &K) -> Option<&V> {
        let idx = self.find(k);
        if idx == CAP { None } else { self.slots[idx].as_ref().map(|kv| &kv.1) }
    }
    pub fn get_mut(&mut self, k: &K) -> Option<&mut V> {
        let idx = self.find(k);
        if idx == CAP { None } else { self.slots[idx].as_mut().map(|kv| &mut kv.1) }
    }
    pub fn contains_key(&self, k: &K) -> bool {
        self.find(k) != CAP
    }
    pub fn remove(&mut self, k: &K) -> Option<V> {
        let idx = self.find(k);
        if idx == CAP { None } else { self.slots[idx].take().map(|kv| kv.1) }
    }
    pub fn retain<F: FnMut(&K, &mut V) -> bool>(&mut self, mut f: F) {
        each_slot!(i, {
            let keep = match self.slots[i].as_mut() { Some(kv) => f(&kv.0, &mut kv.1), None => true };
            if !keep { self.slots[i] = None; }
        });
    }
    pub fn keys(&self) -> impl Iterator<Item = &K> {
        self.slots.iter().filter_map(|s| s.as_ref().map(|kv| &kv.0))
    }
    pub fn values(&self) -> impl Iterator<Item = &V> {
        self.slots.iter().filter_map(|s| s.as_ref().map(|kv| &kv.1))
    }
    pub fn iter(&self) -> impl Iterator<Item = (&K, &V)> {
        self.slots.iter().filter_map(|s| s.as_ref().map(|kv| (&kv.0, &kv.1)))
    }
    pub fn entry(&mut self, k: K) -> Entry<'_, K, V> {
        Entry { map: self, key: k }
    }
}

pub struct Entry<'a, K, V> {
    map: &'a mut HashMap<K, V>,
    key: K,
}
impl<'a, K: PartialEq, V> Entry<'a, K, V> {
    pub fn or_insert(self, default: V) -> &'a mut V {
        let mut idx = self.map.find(&self.key);
        if idx == CAP {
            idx = self.map.free();
            if idx == CAP {
                panic!("verif model: HashMap capacity exceeded");
            }
            self.map.slots[idx] = Some((self.key, default));
        }
        self.map.slots[idx].as_mut().map(|kv| &mut kv.1).unwrap()
    }
}

impl<'a, K: PartialEq, V> IntoIterator for &'a HashMap<K, V> {
    type Item = (&'a K, &'a V);
    type IntoIter = core::iter::FilterMap<
        core::slice::Iter<'a, Option<(K, V)>>,
        fn(&'a Option<(K, V)>) -> Option<(&'a K, &'a V)>,
    >;
    fn into_iter(self) -> Self::IntoIter {
        fn pick<'b, K, V>(s: &'b Option<(K, V)>) -> Option<(&'b K, &'b V)> {
            s.as_ref().map(|kv| (&kv.0, &kv.1))
        }
        self.slots.iter().filter_map(pick::<K, V> as fn(&'a Option<(K, V)>) -> Option<(&'a K, &'a V)>)
    }
}

// ---------------------------------------------------------------------------------------
// LevelDB: DB::open returns a handle over a harness-provided sequence of (key, value) pairs.
// Contract assumed: LevelDB iterates in ascending bytewise key order with unique keys — the
// harness is responsible for laying records out in that order.
// ---------------------------------------------------------------------------------------
pub mod leveldb {
    use std::path::Path;
    pub const MAXREC: usize = 5;
    pub const KLEN: usize = 33;
    pub const VMAX: usize = 100;
    pub static mut N_REC: usize = 0;
    pub static mut KEYS: [[u8; KLEN]; MAXREC] = [[0; KLEN]; MAXREC];
    pub static mut KEYLEN: [usize; MAXREC] = [KLEN; MAXREC];
    pub static mut VALS: [[u8; VMAX]; MAXREC] = [[0; VMAX]; MAXREC];
    pub static mut VLEN: [usize; MAXREC] = [0; MAXREC];

    #[derive(Debug)]
    pub struct Status;
    impl std::fmt::Display for Status {
        fn fmt(&self, f: &mut std::fmt::Formatter) -> std::fmt::Result {
            f.write_str("status")
        }
    }
    impl std::error::Error for Status {}
    #[derive(Default)]
    pub struct Options;
    pub struct DB;
    pub struct DBIterator {
        pos: usize,
    }
    impl DB {
        pub fn open<P: AsRef<Path>>(_name: P, _opt: Options) -> Result<DB, Status> {
            Ok(DB)
        }
        pub fn new_iter(&mut self) -> Result<DBIterator, Status> {
            Ok(DBIterator { pos: 0 })
        }
    }
    pub trait LdbIterator {
        fn advance(&mut self) -> bool;
        fn current(&self, key: &mut Vec<u8>, val: &mut Vec<u8>) -> bool;
    }
    impl LdbIterator for DBIterator {
        fn advance(&mut self) -> bool {
            self.pos += 1;
            self.pos <= unsafe { N_REC }
        }
        fn current(&self, key: &mut Vec<u8>, val: &mut Vec<u8>) -> bool {
            let i = self.pos - 1;
            unsafe {
                key.clear();
                key.extend_from_slice(&KEYS[i][..KEYLEN[i]]);
                val.clear();
                val.extend_from_slice(&VALS[i][..VLEN[i]]);
            }
            true
        }
    }
}

// ---------------------------------------------------------------------------------------
// fs: in-memory ghost files. `File` is identified by a small integer fd derived from the
// first byte of the path (b'0' + fd) or constructed directly with File::ghost(fd).
//  * write(): may fail at any call when FAULTS_ON (symbolic per call), may be short when
//    SHORT_ON; accepted bytes are counted per fd and the first LOGCAP bytes are kept.
//  * read()/seek(): over DATA[fd][..LEN[fd]] (harness-provided content), or, when FUNC_ON,
//    over an unbounded sparse file whose byte at position p is func_byte(fd, p) up to LEN64.
//  * rename(): records the call and snapshots the accepted-byte counters.
// Contract assumed: POSIX file semantics for sequential writes, positioned reads, and rename.
// ---------------------------------------------------------------------------------------
pub mod fs {
    use std::io::{self, Read, Seek, SeekFrom, Write};
    use std::path::{Path, PathBuf};

    pub const NFILES: usize = 8;
    pub const FSIZE: usize = 256;
    pub const LOGCAP: usize = 96;

    pub static mut DATA: [[u8; FSIZE]; NFILES] = [[0; FSIZE]; NFILES];
    pub static mut LEN: [usize; NFILES] = [0; NFILES];
    pub static mut EXISTS: [bool; NFILES] = [true; NFILES];
    pub static mut OPENS: [usize; NFILES] = [0; NFILES];
    pub static mut LIVE: [usize; NFILES] = [0; NFILES]; // open handles currently alive

    pub static mut FAULTS_ON: bool = false;
    pub static mut SHORT_ON: bool = false;
    pub static mut WRITE_FAILED: bool = false;
    pub static mut WRITE_CALLS: usize = 0;
    pub static mut ACCEPTED: [usize; NFILES] = [0; NFILES];
    pub static mut WLOG: [[u8; LOGCAP]; NFILES] = [[0; LOGCAP]; NFILES];
    pub static mut FLUSHES: [usize; NFILES] = [0; NFILES];

    pub static mut RENAMES: usize = 0;
    pub static mut SNAP_AT_FIRST_RENAME: [usize; NFILES] = [0; NFILES];
    pub static mut RENAME_FAIL_AT: usize = usize::MAX;
    pub const NAMECAP: usize = 40;
    pub static mut RENAME_TO: [[u8; NAMECAP]; 4] = [[0; NAMECAP]; 4];
    pub static mut RENAME_TO_LEN: [usize; 4] = [0; 4];
    pub static mut RENAME_FROM: [[u8; NAMECAP]; 4] = [[0; NAMECAP]; 4];
    pub static mut RENAME_FROM_LEN: [usize; 4] = [0; 4];

    // sparse "function" files for far offsets
    pub static mut FUNC_ON: bool = false;
    pub static mut LEN64: [u64; NFILES] = [0; NFILES];
    pub static mut FUNC_SALT: [u8; NFILES] = [0; NFILES];
    pub fn func_byte(fd: usize, pos: u64) -> u8 {
        let s = unsafe { FUNC_SALT[fd] };
        (pos as u8) ^ ((pos >> 8) as u8).wrapping_mul(3) ^ ((pos >> 32) as u8).wrapping_mul(7) ^ s
    }

    pub struct File {
        pub fd: usize,
        pub pos: u64,
    }

    impl File {
        pub fn ghost(fd: usize) -> File {
            unsafe { LIVE[fd] += 1; }
            File { fd, pos: 0 }
        }
        fn fd_of<P: AsRef<Path>>(p: P) -> usize {
            let b = p.as_ref().as_os_str().as_encoded_bytes();
            if b.is_empty() { 0 } else { (b[b.len() - 1].wrapping_sub(b'0') as usize) % NFILES }
        }
        pub fn open<P: AsRef<Path>>(p: P) -> io::Result<File> {
            let fd = Self::fd_of(p);
            unsafe {
                if !EXISTS[fd] {
                    return Err(io::Error::from(io::ErrorKind::NotFound));
                }
                OPENS[fd] += 1;
            }
            Ok(File::ghost(fd))
        }
        pub fn create<P: AsRef<Path>>(p: P) -> io::Result<File> {
            let fd = Self::fd_of(p);
            unsafe { ACCEPTED[fd] = 0; LEN[fd] = 0; EXISTS[fd] = true; }
            Ok(File::ghost(fd))
        }
    }
    impl Drop for File {
        fn drop(&mut self) {
            unsafe { LIVE[self.fd] -= 1; }
        }
    }

    impl Write for File {
        fn write(&mut self, buf: &[u8]) -> io::Result<usize> {
            unsafe {
                WRITE_CALLS += 1;
                if FAULTS_ON {
                    let fail: bool = kani::any();
                    if fail {
                        WRITE_FAILED = true;
                        return Err(io::Error::from(io::ErrorKind::Other));
                    }
                }
                let mut n = buf.len();
                if SHORT_ON && n > 1 {
                    let short: bool = kani::any();
                    if short { n = 1; }
                }
                let fd = self.fd;
                let mut i = 0;
                while i < n {
                    let at = ACCEPTED[fd] + i;
                    if at < LOGCAP { WLOG[fd][at] = buf[i]; }
                    i += 1;
                }
                ACCEPTED[fd] += n;
                Ok(n)
            }
        }
        fn flush(&mut self) -> io::Result<()> {
            unsafe { FLUSHES[self.fd] += 1; }
            Ok(())
        }
    }

    impl Read for File {
        fn read(&mut self, buf: &mut [u8]) -> io::Result<usize> {
            unsafe {
                if FUNC_ON {
                    let len = LEN64[self.fd];
                    if self.pos >= len { return Ok(0); }
                    let avail = len - self.pos;
                    let n = if (buf.len() as u64) < avail { buf.len() } else { avail as usize };
                    let mut i = 0;
                    while i < n { buf[i] = func_byte(self.fd, self.pos + i as u64); i += 1; }
                    self.pos += n as u64;
                    return Ok(n);
                }
                let len = LEN[self.fd] as u64;
                if self.pos >= len { return Ok(0); }
                let avail = (len - self.pos) as usize;
                let n = if buf.len() < avail { buf.len() } else { avail };
                let p = self.pos as usize;
                let mut i = 0;
                while i < n { buf[i] = DATA[self.fd][p + i]; i += 1; }
                self.pos += n as u64;
                Ok(n)
            }
        }
    }
    impl Seek for File {
        fn seek(&mut self, pos: SeekFrom) -> io::Result<u64> {
            let len = unsafe { if FUNC_ON { LEN64[self.fd] } else { LEN[self.fd] as u64 } };
            let np: i128 = match pos {
                SeekFrom::Start(p) => p as i128,
                SeekFrom::Current(d) => self.pos as i128 + d as i128,
                SeekFrom::End(d) => len as i128 + d as i128,
            };
            if np < 0 || np > u64::MAX as i128 {
                return Err(io::Error::from(io::ErrorKind::InvalidInput));
            }
            self.pos = np as u64;
            Ok(self.pos)
        }
    }

    fn copy_name(p: &Path, dst: &mut [u8; NAMECAP]) -> usize {
        let b = p.as_os_str().as_encoded_bytes();
        let n = if b.len() < NAMECAP { b.len() } else { NAMECAP };
        let mut i = 0;
        while i < n { dst[i] = b[i]; i += 1; }
        n
    }

    pub fn rename<P: AsRef<Path>, Q: AsRef<Path>>(from: P, to: Q) -> io::Result<()> {
        unsafe {
            if RENAMES == RENAME_FAIL_AT {
                return Err(io::Error::from(io::ErrorKind::Other));
            }
            if RENAMES == 0 { SNAP_AT_FIRST_RENAME = ACCEPTED; }
            if RENAMES < 4 {
                RENAME_TO_LEN[RENAMES] = copy_name(to.as_ref(), &mut RENAME_TO[RENAMES]);
                RENAME_FROM_LEN[RENAMES] = copy_name(from.as_ref(), &mut RENAME_FROM[RENAMES]);
            }
            RENAMES += 1;
        }
        Ok(())
    }

    // pass-throughs so that `fs::` paths used by code outside the verified functions still compile
    pub use std::fs::{metadata, read_dir, read_link, DirEntry};
    pub fn _unused(_p: PathBuf) {}
}

// ---------------------------------------------------------------------------------------
// process / time: exit records the code and ends the path; Instant::now is a constant.
// ---------------------------------------------------------------------------------------
pub mod process {
    pub static mut EXIT_CODE: i32 = -1;
    pub static mut EXITED: bool = false;
    /// Hook evaluated at exit time (assertions about the state when the process would die).
    pub static mut AT_EXIT: Option<fn(i32)> = None;
    pub struct ExitMarker(pub i32);
    pub fn exit(code: i32) -> ! {
        unsafe {
            EXIT_CODE = code;
            EXITED = true;
            if let Some(f) = AT_EXIT { f(code); }
        }
        if cfg!(test) {
            std::panic::panic_any(ExitMarker(code));
        } else {
            kani::assume(false);
            loop {}
        }
    }
}

pub mod time {
    pub use std::time::Duration;
    #[derive(Clone, Copy, PartialEq, Eq, PartialOrd, Ord, Debug)]
    pub struct Instant(pub u64);
    impl Instant {
        pub fn now() -> Instant {
            Instant(0)
        }
    }
    impl core::ops::Sub<Instant> for Instant {
        type Output = Duration;
        fn sub(self, o: Instant) -> Duration {
            Duration::from_secs(self.0.saturating_sub(o.0))
        }
    }
}
