//! Sequential model of rayon for the verification overlay of rusty-blockparser.
//! Contract assumed (rayon's documented guarantee): an *indexed* parallel iterator collected
//! into a Vec preserves the order of the source; `join(a, b)` returns `(a(), b())`. Kani does not
//! model threads, so this model is exactly why property C13 (schedule independence) is NOT claimed.
//! The subset is wider than what the pinned tree uses (`into_par_iter().map().collect()`), so that a
//! changed tree reaching for `join`, `par_iter`, `filter`, `for_each`, `sum`, ... still builds.

/// Sequential `rayon::join`.
pub fn join<A, B, RA, RB>(oper_a: A, oper_b: B) -> (RA, RB)
where
    A: FnOnce() -> RA,
    B: FnOnce() -> RB,
{
    let ra = oper_a();
    let rb = oper_b();
    (ra, rb)
}
pub fn current_num_threads() -> usize {
    1
}

pub mod iter {
    pub struct Seq<I>(pub I);
    pub trait IntoParallelIterator {
        type Iter;
        fn into_par_iter(self) -> Self::Iter;
    }
    impl<T> IntoParallelIterator for Vec<T> {
        type Iter = Seq<std::vec::IntoIter<T>>;
        fn into_par_iter(self) -> Self::Iter {
            Seq(self.into_iter())
        }
    }
    impl<'a, T> IntoParallelIterator for &'a Vec<T> {
        type Iter = Seq<std::slice::Iter<'a, T>>;
        fn into_par_iter(self) -> Self::Iter {
            Seq(self.iter())
        }
    }
    impl<'a, T> IntoParallelIterator for &'a [T] {
        type Iter = Seq<std::slice::Iter<'a, T>>;
        fn into_par_iter(self) -> Self::Iter {
            Seq(self.iter())
        }
    }
    impl<T> IntoParallelIterator for std::ops::Range<T>
    where
        std::ops::Range<T>: Iterator,
    {
        type Iter = Seq<std::ops::Range<T>>;
        fn into_par_iter(self) -> Self::Iter {
            Seq(self)
        }
    }
    pub trait IntoParallelRefIterator<'a> {
        type Iter;
        fn par_iter(&'a self) -> Self::Iter;
    }
    impl<'a, T: 'a> IntoParallelRefIterator<'a> for Vec<T> {
        type Iter = Seq<std::slice::Iter<'a, T>>;
        fn par_iter(&'a self) -> Self::Iter {
            Seq(self.iter())
        }
    }
    impl<'a, T: 'a> IntoParallelRefIterator<'a> for [T] {
        type Iter = Seq<std::slice::Iter<'a, T>>;
        fn par_iter(&'a self) -> Self::Iter {
            Seq(self.iter())
        }
    }
    pub trait ParallelIterator: Sized {
        type Item;
        type Inner: Iterator<Item = Self::Item>;
        fn inner(self) -> Self::Inner;
        fn map<R, F: FnMut(Self::Item) -> R>(self, f: F) -> Seq<std::iter::Map<Self::Inner, F>> {
            Seq(self.inner().map(f))
        }
        fn filter<F: FnMut(&Self::Item) -> bool>(self, f: F) -> Seq<std::iter::Filter<Self::Inner, F>> {
            Seq(self.inner().filter(f))
        }
        fn filter_map<R, F: FnMut(Self::Item) -> Option<R>>(self, f: F) -> Seq<std::iter::FilterMap<Self::Inner, F>> {
            Seq(self.inner().filter_map(f))
        }
        fn enumerate(self) -> Seq<std::iter::Enumerate<Self::Inner>> {
            Seq(self.inner().enumerate())
        }
        fn for_each<F: FnMut(Self::Item)>(self, f: F) {
            self.inner().for_each(f)
        }
        fn collect<C: FromIterator<Self::Item>>(self) -> C {
            self.inner().collect()
        }
        fn sum<S: std::iter::Sum<Self::Item>>(self) -> S {
            self.inner().sum()
        }
        fn count(self) -> usize {
            self.inner().count()
        }
        fn all<F: FnMut(Self::Item) -> bool>(self, f: F) -> bool {
            let mut it = self.inner();
            it.all(f)
        }
        fn any<F: FnMut(Self::Item) -> bool>(self, f: F) -> bool {
            let mut it = self.inner();
            it.any(f)
        }
    }
    /// rayon's IndexedParallelIterator is a marker here: the sequential model is always ordered
    pub trait IndexedParallelIterator: ParallelIterator {}
    impl<I: Iterator> ParallelIterator for Seq<I> {
        type Item = I::Item;
        type Inner = I;
        fn inner(self) -> I {
            self.0
        }
    }
    impl<I: Iterator> IndexedParallelIterator for Seq<I> {}
}
pub mod prelude {
    pub use crate::iter::{IndexedParallelIterator, IntoParallelIterator, IntoParallelRefIterator, ParallelIterator};
}
pub mod slice {
    pub trait ParallelSlice<T> {
        fn par_chunks(&self, n: usize) -> crate::iter::Seq<std::slice::Chunks<'_, T>>;
    }
    impl<T> ParallelSlice<T> for [T] {
        fn par_chunks(&self, n: usize) -> crate::iter::Seq<std::slice::Chunks<'_, T>> {
            crate::iter::Seq(self.chunks(n))
        }
    }
}
