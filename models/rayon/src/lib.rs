//! Sequential model of the rayon subset used by rusty-blockparser.
//! Contract assumed (rayon's documented guarantee): an *indexed* parallel iterator collected
//! into a Vec preserves the order of the source. Kani does not model threads, so this model is
//! exactly why property C13 (schedule independence) is NOT claimed.
pub mod iter {
    pub struct Seq<I>(pub I);
    pub trait IntoParallelIterator {
        type Iter;
        fn into_par_iter(self) -> Self::Iter;
    }
    impl<T> IntoParallelIterator for Vec<T> {
        type Iter = Seq<std::vec::IntoIter<T>>;
        fn into_par_iter(self) -> Self::Iter {
            Seq(self.into_iter())
        }
    }
    pub trait ParallelIterator: Sized {
        type Item;
        type Inner: Iterator<Item = Self::Item>;
        fn inner(self) -> Self::Inner;
        fn map<R, F: FnMut(Self::Item) -> R>(self, f: F) -> Seq<std::iter::Map<Self::Inner, F>> {
            Seq(self.inner().map(f))
        }
        fn collect<C: FromIterator<Self::Item>>(self) -> C {
            self.inner().collect()
        }
    }
    impl<I: Iterator> ParallelIterator for Seq<I> {
        type Item = I::Item;
        type Inner = I;
        fn inner(self) -> I {
            self.0
        }
    }
}
